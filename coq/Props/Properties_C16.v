(* C16 - topology diffs: property theorems only (proofs in Attr/DiffProofs.v). *)
From Coq Require Import List NArith ZArith Bool String Lia.
From HV Require Import Gen.Tables Attr.Diff Attr.DiffProofs.
Import ListNotations.
Local Open Scope N_scope.
Local Open Scope string_scope.

(* "If the N-th entry cannot be applied, apply returns -N and the topology is
   exactly as before the call": false for the code as it is. *)
Theorem apply_failure_rolls_back_refuted :
  exists T d T', keys_unique T && vals_u64 T && info_names_nodup T = true /\
                 diff_apply 0 d T = ARet (-3) T' /\ T' <> T.
Proof. exists rb_T, rb_d, (topo1 (Some "m") [("X", "b")]). destruct rollback_witness as [H1 H2].
  split; [exact H2|]. split; [exact H1|]. intros E. discriminate E. Qed.
Print Assumptions apply_failure_rolls_back_refuted.
