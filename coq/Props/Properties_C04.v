(* C04 - property theorems only (proofs: Bitmap/BitmapTextProofs.v, Base/{Bytes,Strto,Snprintf}.v).

   Model: Bitmap/BitmapText.v.  A bitmap is (ulongs, infinite flag); [abs] is its
   finite/cofinite set.  Printers = lists of pieces fed to the cursor-triple
   idiom; parsers = functions on checked strings ([Oob] = a read outside the
   block, [PAssert] = a failed assert()).

   What is proved for ALL inputs: the snprintf contract of the three printers
   (any bitmap, any buffer), asprintf = snprintf, "sscanf returns 0 or -1 and
   never reads outside" for every NUL-terminated string (list, taskset, hwloc:
   /repo eea9042 fixed the over-read on "" and the assert on a leading comma).
   The three round trips parse (print b) = b are proved for every well-formed
   bitmap (list: every set whose indexes fit an int), and stability of every
   accepted value follows.  The bounded sweeps (suffix _partial) are kept as
   executable cross-checks of the same statements. *)
From Coq Require Import String Ascii.
From Coq Require Import NArith ZArith List Bool.
From HV Require Import Base.BSet Base.Bytes Base.Strto Base.Snprintf Bitmap.BitmapText Bitmap.BitmapTextProofs Bitmap.BitmapTextProofsList Bitmap.BitmapTextProofsTaskset Bitmap.BitmapTextProofsHwloc Bitmap.BitmapTextProofsWf.
Import ListNotations.
Local Open Scope N_scope.

(* ================= snprintf contract =================
   [contract text init r]: the call on the caller's buffer [init] (buflen = length init,
   [] = NULL/0) performs no store outside it, returns length text, and leaves
   firstn (buflen-1) text ++ [0] ++ the caller's bytes (so: NUL-terminated when buflen > 0,
   truncated text is a prefix of the full text, nothing stored for NULL/0). *)
Theorem print_contract_hwloc : forall b init, contract (text_hwloc b) init (print_hwloc b init).
Proof. exact print_contract_hwloc_l. Qed.
Print Assumptions print_contract_hwloc.

Theorem print_contract_taskset : forall b init, contract (text_taskset b) init (print_taskset b init).
Proof. exact print_contract_taskset_l. Qed.
Print Assumptions print_contract_taskset.

(* the list printer loops over next/next_unset with fuel: it never runs out *)
Theorem print_contract_list : forall b init,
  exists text, text_list (abs b) = Some text /\ contract text init (print_list b init).
Proof. exact print_contract_list_l. Qed.
Print Assumptions print_contract_list.

(* asprintf (sizing call with NULL/0, then a call on a fresh block of len+1 bytes
   of arbitrary content) returns the same length and the whole text; holds for
   any piece list, hence for the three formats *)
Theorem asprintf_eq_snprintf : forall ps junk, (forall n, length (junk n) = n) ->
  snprintf_pieces ps [] = Some (length (concat ps), []) /\
  asprintf_pieces ps junk = Some (length (concat ps), concat ps ++ [0]).
Proof. exact asprintf_pieces_eq. Qed.
Print Assumptions asprintf_eq_snprintf.

Example contract_non_vacuous :
  print_hwloc (BM [5; 1] false) [7; 7; 7; 7; 7; 7] = Some (22%nat, [48; 120; 48; 48; 48; 0]).
Proof. vm_compute. reflexivity. Qed.

(* ================= parsing arbitrary NUL-terminated strings ================= *)
Theorem parse_total_list : forall s, nul_terminated s -> exists r, parse_list s = Ok r.
Proof. intros s [n Hs]. exact (parse_list_total s n Hs). Qed.
Print Assumptions parse_total_list.

Theorem parse_total_taskset : forall dirty s, nul_terminated s ->
  exists r, parse_taskset dirty s = Ok r /\ r <> PAssert.
Proof. intros dirty s [n Hs]. exact (parse_taskset_total dirty s n Hs). Qed.
Print Assumptions parse_total_taskset.

(* --- hwloc format: /repo eea9042 (comma count from index 0) and 2d8cfb1 (no unwritten word) --- *)
Example model_follows_current_code : hwloc_sscanf_fixed = true /\ hwloc_sscanf_zeroed = true.
Proof. split; reflexivity. Qed.

Theorem parse_total_hwloc : forall dirty s, nul_terminated s ->
  exists r, parse_hwloc dirty s = Ok r /\ r <> PAssert.
Proof.
  intros dirty s [n Hs]. apply (parse_hwloc_gen_total hwloc_sscanf_fixed hwloc_sscanf_zeroed dirty s n Hs).
  discriminate.
Qed.
Print Assumptions parse_total_hwloc.

(* the accepted value is determined by the string alone (not by what the bitmap
   held before): /repo 2d8cfb1 zeroes the words and stores the pending accumulator *)
Theorem parse_hwloc_deterministic : forall d1 d2 s, parse_hwloc d1 s = parse_hwloc d2 s.
Proof. exact (parse_hwloc_zeroed_deterministic true). Qed.
Print Assumptions parse_hwloc_deterministic.

Example nul_terminated_non_vacuous : nul_terminated (cstr "0,2,64-65,100-").
Proof. exists 14. apply (cstring_app (bytes_of_string "0,2,64-65,100-") []). repeat constructor; discriminate. Qed.

(* ================= round trip, list format: every set whose indexes fit an int =================
   (the C code computes indexes in int; N.size (fin s) bounds every index the
   printer emits, for finite and infinite sets alike) *)
Theorem roundtrip_list : forall s, N.size (fin s) < 2147483648 ->
  exists t, text_list s = Some t /\ parse_list (t ++ [0]) = Ok (Some s).
Proof. exact roundtrip_list_gen. Qed.
Print Assumptions roundtrip_list.

Theorem parse_stable_list : forall str b, parse_list str = Ok (Some b) -> N.size (fin b) < 2147483648 ->
  exists t, text_list b = Some t /\ parse_list (t ++ [0]) = Ok (Some b).
Proof. intros str b _ H. now apply roundtrip_list_gen. Qed.
Print Assumptions parse_stable_list.

Example roundtrip_list_non_vacuous :
  let s := abs (BM [5; 18446744004990074883] true) in
  N.size (fin s) < 2147483648 /\ option_map (@length N) (text_list s) = Some 14%nat.
Proof. split; vm_compute; reflexivity. Qed.

(* ================= round trip, taskset format: every well-formed bitmap =================
   (any number of words, finite or infinite, redundant top words included; bm_wf = words < 2^64) *)
Theorem roundtrip_taskset : forall dirty b, bm_wf b ->
  exists b', parse_taskset dirty (text_taskset b ++ [0]) = Ok (PSet b') /\ abs b' = abs b /\ bm_wf b'.
Proof. exact roundtrip_taskset_gen. Qed.
Print Assumptions roundtrip_taskset.

(* whatever hwloc_bitmap_taskset_sscanf accepts is stable under print-then-parse
   ([dirty] is the previous content of a 64-bit word, hence < 2^64) *)
Theorem parse_stable_taskset : forall dirty str b, dirty < W64 -> parse_taskset dirty str = Ok (PSet b) ->
  exists b', parse_taskset dirty (text_taskset b ++ [0]) = Ok (PSet b') /\ abs b' = abs b.
Proof.
  intros dirty str b Hd H. pose proof (parse_taskset_wf dirty str b Hd H) as Hwf.
  destruct (roundtrip_taskset_gen dirty b Hwf) as [b' [H1 [H2 _]]]. eauto.
Qed.
Print Assumptions parse_stable_taskset.

Example roundtrip_taskset_non_vacuous : bm_wf (BM [18446744069414584321; FULL; 1] true).
Proof. repeat constructor. Qed.

(* ================= round trip, hwloc format: every well-formed bitmap =================
   (0xf...f prefix, 32-bit groups packed in 64-bit words, merge with the infinite
   prefix, skipped leading zero groups, "0x0" last group; any number of words) *)
Theorem roundtrip_hwloc : forall dirty b, bm_wf b ->
  exists b', parse_hwloc dirty (text_hwloc b ++ [0]) = Ok (PSet b') /\ abs b' = abs b /\ bm_wf b'.
Proof. exact roundtrip_hwloc_gen. Qed.
Print Assumptions roundtrip_hwloc.

(* whatever hwloc_bitmap_sscanf accepts is stable under print-then-parse: every
   NUL-terminated or not, any string; the accepted words are < 2^64 (proved) *)
Theorem parse_stable_hwloc : forall dirty str b, parse_hwloc dirty str = Ok (PSet b) ->
  exists b', parse_hwloc dirty (text_hwloc b ++ [0]) = Ok (PSet b') /\ abs b' = abs b.
Proof.
  intros dirty str b H.
  assert (Hwf : bm_wf b).
  { apply (parse_hwloc_gen_wf hwloc_sscanf_fixed hwloc_sscanf_zeroed 0 str b); [reflexivity|].
    rewrite <- H. apply (parse_hwloc_zeroed_deterministic true). }
  destruct (roundtrip_hwloc_gen dirty b Hwf) as [b' [H1 [H2 _]]]. eauto.
Qed.
Print Assumptions parse_stable_hwloc.

(* ================= bounded sweeps (vm_compute), kept as cross-checks =================
   The general theorems above subsume them; they exercise the executable
   boolean forms used by the driver. *)
Theorem roundtrip_partial : forall b,
  Forall (fun w => In w WORD_POOL) (bm_words b) -> (length (bm_words b) <= 3)%nat ->
  rt_hwloc_ok b = true /\ rt_taskset_ok b = true /\ rt_list_ok (abs b) = true.
Proof. exact roundtrip_bounded. Qed.
Print Assumptions roundtrip_partial.

Example roundtrip_domain_non_vacuous :
  let b := BM [18446744069414584321; FULL; 1] true in
  Forall (fun w => In w WORD_POOL) (bm_words b) /\ rt_hwloc_ok b = true.
Proof. split; [repeat constructor; simpl; tauto|vm_compute; reflexivity]. Qed.

(* rt_X_ok unfolds to: parse (print b) = Ok (PSet b') with abs b' = abs b (bs_eqb_spec) *)
Theorem rt_hwloc_ok_meaning : forall b, rt_hwloc_ok b = true ->
  exists b', parse_hwloc DIRTY (text_hwloc b ++ [0]) = Ok (PSet b') /\ abs b' = abs b.
Proof.
  intros b H. unfold rt_hwloc_ok in H.
  destruct (parse_hwloc DIRTY (text_hwloc b ++ [0])) as [[b'| |]|]; try discriminate.
  apply andb_true_iff in H. destruct H as [H _]. apply bs_eqb_spec in H. eauto.
Qed.
Print Assumptions rt_hwloc_ok_meaning.

Theorem parse_stable_partial : forall p,
  Forall (fun c => In c CHAR_POOL) p -> (length p <= 5)%nat ->
  stable_hwloc_ok (p ++ [0]) = true /\ stable_taskset_ok (p ++ [0]) = true /\
  (safe_list p = true -> stable_list_ok (p ++ [0]) = true).
Proof. exact stable_bounded. Qed.
Print Assumptions parse_stable_partial.
