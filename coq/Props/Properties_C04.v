(* C04 - property theorems only (proofs are in Bitmap/BitmapTextProofs.v and Base/). *)
From Coq Require Import String Ascii.
From Coq Require Import NArith ZArith List Bool.
From HV Require Import Base.BSet Base.Bytes Base.Strto Base.Snprintf Bitmap.BitmapText Bitmap.BitmapTextProofs.
Import ListNotations.
Local Open Scope N_scope.

(* ---- snprintf contract, for every bitmap (any words, any flag) and every caller buffer ---- *)
Theorem print_contract_hwloc : forall b init, contract (text_hwloc b) init (print_hwloc b init).
Proof. exact print_contract_hwloc_l. Qed.
Print Assumptions print_contract_hwloc.
Theorem print_contract_taskset : forall b init, contract (text_taskset b) init (print_taskset b init).
Proof. exact print_contract_taskset_l. Qed.
Print Assumptions print_contract_taskset.

Theorem asprintf_eq_snprintf : forall ps junk, (forall n, length (junk n) = n) ->
  snprintf_pieces ps [] = Some (length (concat ps), []) /\
  asprintf_pieces ps junk = Some (length (concat ps), concat ps ++ [0]).
Proof. exact asprintf_pieces_eq. Qed.
Print Assumptions asprintf_eq_snprintf.

Theorem sscanf_empty_refuted :
  exists s, nul_terminated s /\ forall dirty, parse_hwloc_gen false dirty s = Oob.
Proof.
  exists [0]. split; [exists 0; split; [reflexivity|intros k Hk; now destruct k]|exact sscanf_empty_oob].
Qed.
Print Assumptions sscanf_empty_refuted.
