(* C07: synthetic descriptions.  Only statements; proofs are in Text/SyntheticProofs.v.

   [Cur] (Text/Synthetic.v, "THE SWITCH") is the code as /repo has it: since the
   fix: commits 06641a7 (memmove), b880e62 (intlv-loops), e2bc16d (arity-uninit)
   and c06b512 (type-match literal end) all four [fix_*] flags are true.
   [upto_insert] is hwloc_backend_synthetic_init up to and including the implicit
   NUMA-level insertion ([parse] = [upto_insert] then [back], lemma parse_decomp):
   the parsing loop with attributes, hwloc_type_sscanf, the sanity checks, the
   default types, the memmove. *)
From Coq Require Import NArith List.
From Coq Require Import Permutation.
From HV Require Import Base.Bytes Gen.Tables Text.Synthetic Text.SyntheticProofs Text.SyntheticBack Text.SyntheticPerm.
Import ListNotations.
Local Open Scope N_scope.

(* ---------------------------------------------------------------- *)
(* Parser safety for ALL NUL-terminated descriptions, code as it is  *)
(* ---------------------------------------------------------------- *)
Theorem synth_parse_safe : forall s, nul_terminated s ->
  match upto_insert Cur s with
  | Ret (lv, count) => lenl lv = MAXD /\ 1 <= count <= MAXD
  | Rej => True
  | Fault _ => False       (* no byte outside the string, no element outside level[0..MAX-1], no literal overrun *)
  end.
Proof.
  intros s Hn. pose proof (upto_insert_safe Cur s Hn) as H.
  destruct (upto_insert Cur s) as [[lv c]| |f]; auto.
  destruct H as [[_ H]|[_ [H _]]]; discriminate.
Qed.
Print Assumptions synth_parse_safe.

(* The WHOLE of hwloc_backend_synthetic_init (default attributes and
   hwloc_synthetic_process_indexes included: explicit lists, x*y and type-based interleaving
   with the loops[] array of capacity nr_loops+1, the level lookups by arity), for all
   NUL-terminated descriptions: no byte outside the string or a keyword literal, no element
   outside level[] or loops[], no use of an unassigned arity, every loop terminates.
   Three arithmetic outcomes remain allowed because their impossibility is NOT proved here:
   FDiv (a level width of 0 used as divisor: excluded in C by the overflow guard of 6af4733,
   widths >= 1 is not an invariant of this proof), FAssert (assert(nbs): the product of loop
   counts wrapping to 0) and FHang (the "unsigned j < total" loop for totals >= 2^32, which the
   model does not run).  None of them was ever produced by the extracted model on the fixed tree. *)
Theorem synth_parse_safe_full : forall s, nul_terminated s ->
  match parse Cur s with
  | Ret _ | Rej => True
  | Fault f => f = FDiv \/ f = FAssert \/ f = FHang
  end.
Proof.
  intros s Hn. pose proof (parse_safe_full Cur s eq_refl eq_refl eq_refl Hn) as H.
  destruct (parse Cur s) as [sy| |f]; auto. destruct H as [[_ H]|H]; [discriminate|exact H].
Qed.
Print Assumptions synth_parse_safe_full.

(* Faithful build, index part: for every accepted description every index array that is used (levels and
   attached NUMA nodes; explicit lists, x*y and type-based interleavings) has exactly one entry per object and
   NO DUPLICATE, and an accepted interleaving is a permutation of 0..total-1.  (Code as committed: explicit
   duplicates rejected since 20f58c3, non-permutation interleavings since 659c0de.)  This is the hypothesis
   inj_on of C01's synthetic_requests_are_laminar. *)
Theorem synth_index_arrays_injective : forall s sy, parse Cur s = Ret sy ->
  Forall iarr_ok (sy_levels sy) /\
  match sy_niarr sy with None => True | Some a => N.of_nat (length a) = sy_nnr sy /\ NoDup a end.
Proof. intros s sy. exact (parse_index_arrays_injective eq_refl eq_refl Cur s sy). Qed.
Print Assumptions synth_index_arrays_injective.
Theorem synth_interleaving_is_permutation : forall s lv attr len total a,
  interleave Cur s lv attr len total = Ret a -> Permutation a (map N.of_nat (seq 0 (N.to_nat total))).
Proof. intros s lv attr len total a. exact (interleave_is_permutation Cur s lv attr len total a eq_refl). Qed.
(* the reported description: its interleaving 0,1,5,3,1,2 is no longer used (default indexes instead) *)
Example synth_non_permutation_ignored :
  exists sy, parse Cur (desc w_nonperm) = Ret sy /\
             forallb (fun l => match lv_iarr l with None => true | Some _ => false end) (sy_levels sy) = true.
Proof. apply nonperm_ignored. Qed.

(* the boundary is reached: 126 levels below Machine without NUMA are accepted with all
   128 entries used; 125 levels too *)
Example synth_126_levels_accepted : exists sy, parse Cur (desc w_memmove) = Ret sy /\ lenl (sy_levels sy) = 128.
Proof. exact memmove_fixed_ok. Qed.
Example synth_125_levels_accepted : exists sy, parse Cur (desc w_125) = Ret sy /\ lenl (sy_levels sy) = 127.
Proof. apply below_boundary_ok. Qed.

(* The same statement for every variant of the model (any subset of the four fixes):
   the only faults are the two known classes, each tied to its flag. *)
Theorem synth_parse_safe_partial : forall v s, nul_terminated s ->
  match upto_insert v s with
  | Ret (lv, count) => lenl lv = MAXD /\ 1 <= count <= MAXD
  | Rej => True
  | Fault f => (f = FLit /\ tm_ok v s = false) \/ (f = FLevel /\ fix_memmove v = false /\ memmove_class v s)
  end.
Proof. exact upto_insert_safe. Qed.
Print Assumptions synth_parse_safe_partial.

(* ---------------------------------------------------------------- *)
(* Regression statements: what each fix: commit removed.  With the     *)
(* flag of a fix off, the model faults on the corpus witness (replayed *)
(* under ASan / valgrind on the tree before the fix).                  *)
(* ---------------------------------------------------------------- *)
Theorem synth_numa_memmove_regression : forall v, fix_memmove v = false ->
  nul_terminated (desc w_memmove) /\ parse v (desc w_memmove) = Fault FLevel.
Proof. exact memmove_refuted. Qed.
Theorem synth_memmove_class_exact_regression : forall v s, fix_memmove v = false -> nul_terminated s ->
  memmove_class v s -> upto_insert v s = Fault FLevel.
Proof. exact memmove_class_overflows. Qed.
Example memmove_class_inhabited : memmove_class Cur (desc w_memmove).
Proof. apply memmove_witness_in_class. Qed.
Theorem synth_intlv_loops_regression : forall v, fix_loops v = false ->
  nul_terminated (desc w_loops) /\ parse v (desc w_loops) = Fault FLoops.
Proof. exact loops_refuted. Qed.
Theorem synth_type_match_regression : forall v, fix_tm v = false ->
  nul_terminated (desc w_e0) /\ parse v (desc w_e0) = Fault FLit.
Proof. exact type_match_refuted. Qed.
Theorem synth_uninit_arity_regression : forall v, fix_arity v = false ->
  nul_terminated (desc w_uninit) /\ parse v (desc w_uninit) = Fault FUninit.
Proof. exact uninit_refuted. Qed.

(* fixed by 6af4733 (products of arities guarded against wrap-around modulo 2^64): the description whose
   total width wrapped to 0 and was then used as a divisor is now rejected *)
Example synth_width_wraparound_rejected : parse Cur (desc w_div) = Rej.
Proof. apply div_witness_rejected. Qed.
