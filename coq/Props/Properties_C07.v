(* C07: synthetic descriptions.  Only statements; proofs are in Text/SyntheticProofs.v *)
From Coq Require Import NArith List.
From HV Require Import Base.Bytes Gen.Tables Text.Synthetic Text.SyntheticProofs.
Import ListNotations.
Local Open Scope N_scope.

(* synth_parse_safe (for every NUL-terminated description the parser touches neither
   a byte outside the string nor an element outside level[0..MAX-1]) is FALSE on the
   code as it is.  Each witness below was replayed on the real library under ASan. *)
Theorem synth_numa_memmove_refuted :
  exists s, nul_terminated s /\ parse Cur s = Fault FLevel.
Proof. exists (desc w_memmove). apply memmove_refuted. reflexivity. Qed.
Print Assumptions synth_numa_memmove_refuted.

Theorem synth_intlv_loops_refuted :
  exists s, nul_terminated s /\ parse Cur s = Fault FLoops.
Proof. exists (desc w_loops). apply loops_refuted. reflexivity. Qed.

Theorem synth_type_match_refuted :
  exists s, nul_terminated s /\ parse Cur s = Fault FLit.
Proof. exists (desc w_e0). apply type_match_refuted. reflexivity. Qed.

Theorem synth_uninit_arity_refuted :
  exists s, nul_terminated s /\ parse Cur s = Fault FUninit.
Proof. exists (desc w_uninit). apply uninit_refuted. reflexivity. Qed.

Theorem synth_width_wraparound_refuted :
  exists s, nul_terminated s /\ parse Cur s = Fault FDiv.
Proof. exists (desc w_div). apply div_refuted. Qed.

(* the memmove witness is in the excluded class, one level fewer is accepted,
   and the fixed statement accepts the witness with all 128 entries used *)
Example memmove_class_inhabited : memmove_class Cur (desc w_memmove).
Proof. apply memmove_witness_in_class. Qed.
Example synth_125_levels_accepted : exists sy, parse Cur (desc w_125) = Ret sy /\ lenl (sy_levels sy) = 127.
Proof. apply below_boundary_ok. Qed.
Example synth_memmove_fixed_accepts : exists sy, parse Fixed (desc w_memmove) = Ret sy /\ lenl (sy_levels sy) = 128.
Proof. exact memmove_fixed_ok. Qed.

(* ---------------------------------------------------------------- *)
(* Parser safety, for ALL NUL-terminated descriptions.               *)
(* [upto_insert] is hwloc_backend_synthetic_init up to and including  *)
(* the implicit NUMA-level insertion ([parse] = [upto_insert] then    *)
(* [back], lemma parse_decomp): the parsing loop with attributes,     *)
(* hwloc_type_sscanf, the sanity checks, default types, the memmove.  *)
(* ---------------------------------------------------------------- *)

(* The code as it is (any variant): no read outside the string, no fuel
   exhaustion, no access outside level[0..MAX-1] -- except exactly the two
   known classes. *)
Theorem synth_parse_safe_partial : forall v s, nul_terminated s ->
  match upto_insert v s with
  | Ret (lv, count) => lenl lv = MAXD /\ 1 <= count <= MAXD
  | Rej => True
  | Fault f => (f = FLit /\ tm_ok v s = false) \/ (f = FLevel /\ fix_memmove v = false /\ memmove_class v s)
  end.
Proof. exact upto_insert_safe. Qed.
Print Assumptions synth_parse_safe_partial.

(* under the hypotheses excluding exactly those classes: no fault at all *)
Corollary synth_parse_safe_partial_nofault : forall s, nul_terminated s ->
  ~ memmove_class Cur s -> tm_ok Cur s = true ->
  forall f, upto_insert Cur s <> Fault f.
Proof.
  intros s Hn Hc Ht f E. pose proof (upto_insert_safe Cur s Hn) as H. rewrite E in H.
  destruct H as [[_ H]|[_ [_ H]]]; [congruence|contradiction].
Qed.
Example partial_hypotheses_met : nul_terminated (desc w_125) /\ ~ memmove_class Cur (desc w_125) /\ tm_ok Cur (desc w_125) = true.
Proof.
  split; [apply desc_nul_terminated; vm_compute; reflexivity|]. split; [|vm_compute; reflexivity].
  intros H. apply memmove_class_b_complete in H. vm_compute in H. discriminate.
Qed.

(* the excluded class is exactly the set of descriptions that overflow *)
Theorem synth_memmove_class_exact : forall s, nul_terminated s ->
  (memmove_class Cur s <-> upto_insert Cur s = Fault FLevel).
Proof.
  intros s Hn. split; [apply memmove_class_overflows; [reflexivity|exact Hn]|].
  intros E. pose proof (upto_insert_safe Cur s Hn) as H. rewrite E in H.
  destruct H as [[H _]|[_ [_ H]]]; [discriminate|exact H].
Qed.
(* ... and the overflow is an overflow of the whole parser *)
Theorem synth_memmove_class_parse : forall s, nul_terminated s -> memmove_class Cur s -> parse Cur s = Fault FLevel.
Proof. intros s Hn Hc. apply upto_insert_fault_parse. apply memmove_class_overflows; [reflexivity|assumption..]. Qed.

(* The code with the four fixes of /verif/patches/fix-C07-*.diff: full statement.
   AFTER THE FIXES ARE COMMITTED TO /repo: set [Cur := Fixed] in Text/Synthetic.v;
   this theorem then is synth_parse_safe for the code as it is. *)
Theorem synth_parse_safe_fixed : forall s, nul_terminated s ->
  match upto_insert Fixed s with
  | Ret (lv, count) => lenl lv = MAXD /\ 1 <= count <= MAXD
  | Rej => True
  | Fault _ => False
  end.
Proof.
  intros s Hn. pose proof (upto_insert_safe Fixed s Hn) as H.
  destruct (upto_insert Fixed s) as [[lv c]| |f]; auto.
  destruct H as [[_ H]|[_ [H _]]]; discriminate.
Qed.
Print Assumptions synth_parse_safe_fixed.
