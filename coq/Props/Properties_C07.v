(* C07: synthetic descriptions.  Only statements; proofs are in Text/SyntheticProofs.v *)
From Coq Require Import NArith List.
From HV Require Import Base.Bytes Gen.Tables Text.Synthetic Text.SyntheticProofs.
Import ListNotations.
Local Open Scope N_scope.

(* synth_parse_safe (for every NUL-terminated description the parser touches neither
   a byte outside the string nor an element outside level[0..MAX-1]) is FALSE on the
   code as it is.  Each witness below was replayed on the real library under ASan. *)
Theorem synth_numa_memmove_refuted :
  exists s, nul_terminated s /\ parse Cur s = Fault FLevel.
Proof. exists (desc w_memmove). exact memmove_refuted. Qed.
Print Assumptions synth_numa_memmove_refuted.

Theorem synth_intlv_loops_refuted :
  exists s, nul_terminated s /\ parse Cur s = Fault FLoops.
Proof. exists (desc w_loops). exact loops_refuted. Qed.

Theorem synth_type_match_refuted :
  exists s, nul_terminated s /\ parse Cur s = Fault FLit.
Proof. exists (desc w_e0). exact type_match_refuted. Qed.

Theorem synth_uninit_arity_refuted :
  exists s, nul_terminated s /\ parse Cur s = Fault FUninit.
Proof. exists (desc w_uninit). exact uninit_refuted. Qed.

Theorem synth_width_wraparound_refuted :
  exists s, nul_terminated s /\ parse Cur s = Fault FDiv.
Proof. exists (desc w_div). exact div_refuted. Qed.

(* the memmove witness is in the excluded class, one level fewer is accepted,
   and the fixed statement accepts the witness with all 128 entries used *)
Example memmove_class_inhabited : memmove_class Cur (desc w_memmove).
Proof. exact memmove_witness_in_class. Qed.
Example synth_125_levels_accepted : exists sy, parse Cur (desc w_125) = Ret sy /\ lenl (sy_levels sy) = 127.
Proof. exact below_boundary_ok. Qed.
Example synth_memmove_fixed_accepts : exists sy, parse Fixed (desc w_memmove) = Ret sy /\ lenl (sy_levels sy) = 128.
Proof. exact memmove_fixed_ok. Qed.
