(* C09 - traversal and locality helpers: property theorems only. *)
From Coq Require Import List NArith ZArith Bool Lia.
From HV Require Import Base.BSet Gen.Tables Topo.Dump Topo.Obj Topo.Helpers Topo.Distrib.
Import ListNotations.
