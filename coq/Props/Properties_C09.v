(* C09 - traversal and locality helpers: property theorems only
   (models in Topo/Helpers.v, Topo/Distrib.v; proofs in Topo/HelpersProofs.v, Topo/DistribProofs.v).

   Hypotheses are facts that wf_check (C01) establishes on every dump:
   [tree_wf]  = children cpusets pairwise disjoint, a parent's cpuset is the union of
                its normal children's, a childless object's cpuset is empty or a
                single PU, arity = number of children;
   [level_ok] = the objects of a level carry its depth and their position as logical index.
   [wbound B] = domain hypothesis of hwloc_distrib: finite cpusets, sibling weights sum
                to at most B, with B * (n + 1) <= 2^32 (C unsigned arithmetic does not wrap). *)
From Coq Require Import List NArith ZArith Bool Lia.
From HV Require Import Base.BSet Gen.Tables Text.TypeOrder Topo.Dump Topo.Obj Topo.Helpers Topo.Distrib Topo.HelpersProofs Topo.DistribProofs.
Import ListNotations.
Local Open Scope N_scope.

(* ---------- a concrete asymmetric tree: Machine{ Package{ Core{PU0,PU1}, Core{PU2} }, PU3 } ---------- *)
Definition mkd (id ty : N) (dp : Z) (os ar li : N) (c : N) : dobj :=
  mkDobj id ty dp os None PNull PNull PNull PNull PNull PNull PNull ar 0 0 0 0 li None [] [] [] []
         (Some (bs_of_N c)) (Some (bs_of_N c)) None None 0 0 (-1) (-1) (-1) (-1) (-1) (-1) (-1).
Definition leaf (d : dobj) : obj := Obj d [] [] [] [].
Definition ex_pu0 := leaf (mkd 3 HWLOC_OBJ_PU 3 0 0 0 1).
Definition ex_pu1 := leaf (mkd 4 HWLOC_OBJ_PU 3 1 0 1 2).
Definition ex_pu2 := leaf (mkd 6 HWLOC_OBJ_PU 3 2 0 2 4).
Definition ex_pu3 := leaf (mkd 7 HWLOC_OBJ_PU 3 3 0 3 8).
Definition ex_core0 := Obj (mkd 2 HWLOC_OBJ_CORE 2 0 2 0 3) [ex_pu0; ex_pu1] [] [] [].
Definition ex_core1 := Obj (mkd 5 HWLOC_OBJ_CORE 2 1 1 1 4) [ex_pu2] [] [] [].
Definition ex_pack := Obj (mkd 1 HWLOC_OBJ_PACKAGE 1 0 2 0 7) [ex_core0; ex_core1] [] [] [].
Definition ex_root := Obj (mkd 0 HWLOC_OBJ_MACHINE 0 0 2 0 15) [ex_pack; ex_pu3] [] [] [].
Definition ex_pus : list dobj := map odata [ex_pu0; ex_pu1; ex_pu2; ex_pu3].

Example ex_tree_wf : tree_wf ex_root = true.
Proof. vm_compute. reflexivity. Qed.
Example ex_wbound : wbound 4 ex_root = true /\ 4 * 9 + 4 <= 2 ^ 32.
Proof. split; [vm_compute; reflexivity|rewrite pow32; lia]. Qed.
Example ex_level_ok : level_ok 3 ex_pus 0 = true.
Proof. vm_compute. reflexivity. Qed.

(* ---------- hwloc_get_obj_covering_cpuset / hwloc_get_child_covering_cpuset ---------- *)

(* for ALL trees with the cpuset structure and ALL sets: the answer includes the
   set and every object including the set is an ancestor-or-self of the answer
   (so it is the deepest one); NULL exactly when the set is empty or nothing includes it *)
Theorem covering_is_deepest_including : forall root set,
  tree_wf root = true ->
  match get_obj_covering_cpuset root set with
  | Some o => set <> bs_empty /\ In o (nflatten root) /\ bs_subset set (cs o) = true /\
              (forall a, In a (nflatten root) -> bs_subset set (cs a) = true -> In o (nflatten a))
  | None => set = bs_empty \/ (forall a, In a (nflatten root) -> bs_subset set (cs a) = false)
  end.
Proof. exact covering_is_deepest_including_l. Qed.
Print Assumptions covering_is_deepest_including.

Example ex_covering :
  option_map oid (get_obj_covering_cpuset ex_root (bs_of_N 3)) = Some 2 /\       (* {PU0,PU1} -> Core 0 *)
  option_map oid (get_obj_covering_cpuset ex_root (bs_of_N 5)) = Some 1 /\       (* {PU0,PU2} -> Package *)
  option_map oid (get_obj_covering_cpuset ex_root (bs_of_N 9)) = Some 0 /\       (* {PU0,PU3} -> Machine *)
  get_obj_covering_cpuset ex_root (bs_of_N 16) = None.
Proof. vm_compute. auto. Qed.

Theorem child_covering_is_first : forall set parent,
  match get_child_covering_cpuset set parent with
  | Some c => set <> bs_empty /\ bs_subset set (cs c) = true /\
              exists l1 l2, onch parent = l1 ++ c :: l2 /\ forall c', In c' l1 -> bs_subset set (cs c') = false
  | None => set = bs_empty \/ forall c, In c (onch parent) -> bs_subset set (cs c) = false
  end.
Proof. exact child_covering_first. Qed.
Print Assumptions child_covering_is_first.

(* ---------- hwloc_get_largest_objs_inside_cpuset ---------- *)

(* for ALL trees, sets and max: -1 iff set is not inside the root; otherwise the
   array holds the first max objects of the unbounded search; they are objects
   of the tree inside the set, pairwise disjoint, maximal (no strict ancestor is
   inside the set), and their union is exactly the set unless the array was filled *)
Theorem largest_objs_partition : forall root set max,
  tree_wf root = true ->
  let rc := fst (get_largest_objs_inside_cpuset root set max) in
  let objs := snd (get_largest_objs_inside_cpuset root set max) in
  (rc = (-1)%Z <-> bs_subset set (cs root) = false) /\
  (bs_subset set (cs root) = true ->
     rc = Z.of_nat (List.length objs) /\ (max <= 0 -> rc = 0)%Z /\ (0 < max -> rc <= max)%Z /\
     objs = firstn (Z.to_nat max) (largest_all root set) /\
     pairwise_disjoint (map cs objs) = true /\
     (forall x, In x objs ->
        In x (nflatten root) /\ bs_subset (cs x) set = true /\
        forall a, In a (nflatten root) -> In x (nflattens (onch a)) -> bs_subset (cs a) set = false) /\
     bs_subset (union_list (map cs objs)) set = true /\
     ((rc < max)%Z -> union_list (map cs objs) = set)).
Proof. exact largest_objs_partition_l. Qed.
Print Assumptions largest_objs_partition.

(* the recursive worker with room for max objects stores exactly the first max objects of the unbounded search *)
Theorem largest_bounded_is_prefix : forall o set max,
  largest_rec o set max = (firstn max (largest_all o set), (max - List.length (firstn max (largest_all o set)))%nat).
Proof. exact largest_rec_prefix. Qed.
Print Assumptions largest_bounded_is_prefix.

Example ex_largest :
  (let r := get_largest_objs_inside_cpuset ex_root (bs_of_N 11) 8 in (fst r, map oid (snd r))) = (2%Z, [2; 7]) /\   (* {0,1,3} = Core0 + PU3 *)
  (let r := get_largest_objs_inside_cpuset ex_root (bs_of_N 14) 8 in (fst r, map oid (snd r))) = (3%Z, [4; 5; 7]) /\ (* {1,2,3} = PU1 + Core1 + PU3 *)
  (let r := get_largest_objs_inside_cpuset ex_root (bs_of_N 14) 2 in (fst r, map oid (snd r))) = (2%Z, [4; 5]) /\
  fst (get_largest_objs_inside_cpuset ex_root (bs_of_N 17) 8) = (-1)%Z.
Proof. vm_compute. auto. Qed.

(* ---------- cousin iterators ---------- *)

Theorem inside_iter_exact : forall lv depth set,
  level_ok depth lv 0 = true -> iter_inside lv depth set = filter (inside_pred set) lv.
Proof. exact inside_iter_exact_l. Qed.
Print Assumptions inside_iter_exact.

Theorem covering_iter_exact : forall lv depth set,
  level_ok depth lv 0 = true -> iter_covering lv depth set = filter (covering_pred set) lv.
Proof. exact covering_iter_exact_l. Qed.
Print Assumptions covering_iter_exact.

Example ex_iterators :
  map o_id (iter_inside ex_pus 3 (bs_of_N 13)) = [3; 6; 7] /\ map o_id (iter_covering ex_pus 3 (bs_of_N 6)) = [4; 6].
Proof. vm_compute. auto. Qed.

(* hwloc_get_nbobjs_inside_cpuset_by_depth / hwloc_get_obj_inside_cpuset_by_depth /
   hwloc_get_obj_index_inside_cpuset: for ALL levels and sets, with B the objects of the level with a
   non-empty cpuset inside the set, in logical order: nbobjs = |B|; for every member o of B,
   index_inside(o) is its position k in B and obj_inside(k) is o again; obj_inside never leaves B;
   an object whose cpuset is not inside the set gets -1 *)
Theorem inside_index_roundtrip : forall lv depth set,
  level_ok depth lv 0 = true ->
  get_nbobjs_inside_cpuset_by_depth lv set = N.of_nat (List.length (filter (inside_pred set) lv)) /\
  (forall o, In o lv -> inside_pred set o = true ->
     exists k, get_obj_index_inside_cpuset lv set o = Z.of_nat k /\ (k < List.length (filter (inside_pred set) lv))%nat /\
               get_obj_inside_cpuset_by_depth lv set (N.of_nat k) = Some o) /\
  (forall o, bs_subset (dcs o) set = false -> get_obj_index_inside_cpuset lv set o = (-1)%Z) /\
  (forall k o, get_obj_inside_cpuset_by_depth lv set k = Some o -> In o lv /\ inside_pred set o = true).
Proof. exact inside_index_roundtrip_l. Qed.
Print Assumptions inside_index_roundtrip.

(* a level with a CPU-less object in the middle: its successors keep consecutive indexes *)
Example ex_inside_index :
  let lv := [mkd 1 HWLOC_OBJ_PACKAGE 1 0 0 0 3; mkd 2 HWLOC_OBJ_PACKAGE 1 1 0 1 0; mkd 3 HWLOC_OBJ_PACKAGE 1 2 0 2 12] in
  level_ok 1 lv 0 = true /\
  get_nbobjs_inside_cpuset_by_depth lv bs_full = 2 /\
  map (get_obj_index_inside_cpuset lv bs_full) lv = [0; 1; 1]%Z /\
  option_map o_id (get_obj_inside_cpuset_by_depth lv bs_full 1) = Some 3.
Proof. vm_compute. auto. Qed.

(* ---------- cpuset <-> nodeset ---------- *)

Theorem cpuset_nodeset_locality : forall nl,
  (level_ok HWLOC_TYPE_DEPTH_NUMANODE nl 0 = true ->
   forall cpuset i, mem i (cpuset_to_nodeset nl cpuset) = existsb (fun o => (o_os o =? i) && bs_intersects cpuset (dcs o)) nl) /\
  (forall nodeset j, mem j (cpuset_from_nodeset nl nodeset) = existsb (fun o => mem (o_os o) nodeset && mem j (dcs o)) nl).
Proof.
  intros nl. split.
  - intros H cpuset i. now apply cpuset_to_nodeset_locality.
  - intros nodeset j. apply cpuset_from_nodeset_locality.
Qed.
Print Assumptions cpuset_nodeset_locality.

(* two NUMA nodes: node 0 local to PUs {0,1,2}, node 5 CPU-less *)
Definition ex_numa : list dobj := [mkd 8 HWLOC_OBJ_NUMANODE HWLOC_TYPE_DEPTH_NUMANODE 0 0 0 7; mkd 9 HWLOC_OBJ_NUMANODE HWLOC_TYPE_DEPTH_NUMANODE 5 0 1 0].
Example ex_nodesets :
  level_ok HWLOC_TYPE_DEPTH_NUMANODE ex_numa 0 = true /\
  cpuset_to_nodeset ex_numa bs_full = bs_of_N 1 /\            (* the CPU-less node is never reported *)
  cpuset_from_nodeset ex_numa (bs_of_N 33) = bs_of_N 7.
Proof. vm_compute. auto. Qed.

(* ---------- hwloc_distrib ---------- *)

(* for ALL roots (trees with the cpuset structure), ALL n >= 1, ALL until, both
   orders, in the no-wrap domain and with some CPU below the roots: the call
   succeeds and writes exactly n slots *)
Theorem distrib_count : forall roots n until flags B,
  1 <= n -> (flags = 0 \/ flags = HWLOC_DISTRIB_FLAG_REVERSE) ->
  Forall (root_ok B) roots -> rsum roots <= B -> B * n + B <= 2 ^ 32 ->
  (exists r, In r roots /\ fst r <> bs_empty) ->
  exists sets, hwloc_distrib roots n until flags = (0%Z, 0, D_ok (map Some sets)) /\ N.of_nat (List.length sets) = n.
Proof.
  intros roots n until flags B H1 H2 H3 H4 H5 H6.
  destruct (hwloc_distrib_good roots n until flags B H1 H2 H3 H4 H5 H6) as (sets & E & L & _). eauto.
Qed.
Print Assumptions distrib_count.

(* ... each set is non-empty and inside the union of the roots' cpusets, and together they cover every root *)
Theorem distrib_nonempty_included_cover : forall roots n until flags B,
  1 <= n -> (flags = 0 \/ flags = HWLOC_DISTRIB_FLAG_REVERSE) ->
  Forall (root_ok B) roots -> rsum roots <= B -> B * n + B <= 2 ^ 32 ->
  (exists r, In r roots /\ fst r <> bs_empty) ->
  exists sets, hwloc_distrib roots n until flags = (0%Z, 0, D_ok (map Some sets)) /\
               Forall (fun s => s <> bs_empty /\ bs_subset s (roots_union roots) = true) sets /\
               union_list sets = roots_union roots.
Proof.
  intros roots n until flags B H1 H2 H3 H4 H5 H6.
  destruct (hwloc_distrib_good roots n until flags B H1 H2 H3 H4 H5 H6) as (sets & E & _ & G & U). eauto.
Qed.
Print Assumptions distrib_nonempty_included_cover.

(* for ALL pairwise disjoint roots (trees with the cpuset structure), ALL until and both orders,
   when every distribution leaf below the roots is a single PU (always the case when until reaches
   the PU level) and n does not exceed the number of PUs below the roots: the n sets are pairwise
   disjoint.  (With heavier leaves the statement is false: distrib_literal_shallow_until.) *)
Theorem distrib_disjoint : forall roots n until flags B,
  1 <= n -> (flags = 0 \/ flags = HWLOC_DISTRIB_FLAG_REVERSE) ->
  Forall (root_ok B) roots -> rsum roots <= B -> B * n + B <= 2 ^ 32 ->
  pairwise_disjoint (map fst roots) = true ->
  Forall (fun r => unit_leaves until (snd r) = true) roots ->
  n <= rsum roots ->
  exists sets, hwloc_distrib roots n until flags = (0%Z, 0, D_ok (map Some sets)) /\
               N.of_nat (List.length sets) = n /\ pairwise_disjoint sets = true.
Proof. exact hwloc_distrib_disjoint. Qed.
Print Assumptions distrib_disjoint.

(* the chunk expression, exactly, where nothing wraps: consecutive differences of ceil(x*n/tot) *)
Theorem distrib_chunk_exact : forall gw w n tot,
  0 < tot -> gw + w <= tot -> tot * n + tot <= 2 ^ 32 ->
  chunk_of gw w n tot = (((gw + w) * n + tot - 1) / tot) - ((gw * n + tot - 1) / tot).
Proof. exact chunk_of_exact. Qed.
Print Assumptions distrib_chunk_exact.

Definition ex_roots : list (bset * obj) := [(cs ex_root, ex_root)].
Example ex_distrib_hyps : Forall (root_ok 4) ex_roots /\ rsum ex_roots <= 4 /\ (exists r, In r ex_roots /\ fst r <> bs_empty).
Proof.
  split; [|split].
  - constructor; [|constructor]. repeat split; vm_compute; reflexivity.
  - vm_compute. discriminate.
  - exists (cs ex_root, ex_root). split; [now left|]. vm_compute. discriminate.
Qed.
Example ex_distrib_disjoint_hyps :
  pairwise_disjoint (map fst ex_roots) = true /\ Forall (fun r => unit_leaves INT_MAX (snd r) = true) ex_roots /\ 3 <= rsum ex_roots.
Proof. split; [reflexivity|]. split; [constructor; [vm_compute; reflexivity|constructor]|vm_compute; discriminate]. Qed.
Example ex_distrib :
  hwloc_distrib ex_roots 3 INT_MAX 0 = (0%Z, 0, D_ok [Some (bs_of_N 1); Some (bs_of_N 2); Some (bs_of_N 12)]) /\   (* PU3 gets no chunk: merged into the previous set *)
  hwloc_distrib ex_roots 3 INT_MAX HWLOC_DISTRIB_FLAG_REVERSE = (0%Z, 0, D_ok [Some (bs_of_N 8); Some (bs_of_N 4); Some (bs_of_N 3)]) /\
  hwloc_distrib ex_roots 5 INT_MAX 0 = (0%Z, 0, D_ok [Some (bs_of_N 1); Some (bs_of_N 1); Some (bs_of_N 2); Some (bs_of_N 4); Some (bs_of_N 8)]).   (* n > #PU: a PU is given twice *)
Proof. vm_compute. auto. Qed.

(* Interpretation remark (DESIGN 6.C09), recorded so that nobody mistakes it for
   a defect: with a shallow [until] the distribution leaves are the objects of
   that depth; with heterogeneous leaves two of the n sets overlap even for
   n = number of leaves.  Here until = 1, n = 2, leaves Package{0,1,2} and PU3:
   the Package gets ceil(3*2/4) = 2 slots, PU3 gets 0 and is merged into the second. *)
Theorem distrib_literal_shallow_until :
  exists roots n until,
    hwloc_distrib roots n until 0 = (0%Z, 0, D_ok [Some (bs_of_N 7); Some (bs_of_N 15)]) /\
    List.length (flat_map (fun r => dist_leaves until (snd r)) roots) = N.to_nat n /\
    pairwise_disjoint [bs_of_N 7; bs_of_N 15] = false.
Proof. exists ex_roots, 2, 1%Z. vm_compute. auto. Qed.
Print Assumptions distrib_literal_shallow_until.

(* a three-object dump: Machine 0 { PU 1 ; NUMA node 2 (memory child, depth -3) } *)
Definition ex_dump3 : dump :=
  let m := mkd 0 HWLOC_OBJ_MACHINE 0 0 1 0 1 in
  let pu := mkDobj 1 HWLOC_OBJ_PU 1 0 None (PId 0) PNull PNull PNull PNull PNull PNull 0 0 0 0 0 0 None [] [] [] []
                   (Some (bs_of_N 1)) (Some (bs_of_N 1)) None None 0 0 (-1) (-1) (-1) (-1) (-1) (-1) (-1) in
  let numa := mkDobj 2 HWLOC_OBJ_NUMANODE HWLOC_TYPE_DEPTH_NUMANODE 0 None (PId 0) PNull PNull PNull PNull PNull PNull 0 0 0 0 0 0 None [] [] [] []
                   (Some (bs_of_N 1)) (Some (bs_of_N 1)) None None 0 0 (-1) (-1) (-1) (-1) (-1) (-1) (-1) in
  mkDump 0 2 3 [] None None
         [mkLevel 0 (Z.of_N HWLOC_OBJ_MACHINE) 1 [PId 0] PNull; mkLevel 1 (Z.of_N HWLOC_OBJ_PU) 1 [PId 1] PNull;
          mkLevel HWLOC_TYPE_DEPTH_NUMANODE (Z.of_N HWLOC_OBJ_NUMANODE) 1 [PId 2] PNull]
         [0; -1; -1; -1; 1; -1; -1; -1; -1; -1; -1; -1; -1; -1;
          HWLOC_TYPE_DEPTH_NUMANODE; HWLOC_TYPE_DEPTH_MEMCACHE; HWLOC_TYPE_DEPTH_BRIDGE; HWLOC_TYPE_DEPTH_PCI_DEVICE;
          HWLOC_TYPE_DEPTH_OS_DEVICE; HWLOC_TYPE_DEPTH_MISC]%Z
         [m; pu; numa].

(* ---------- hwloc_get_common_ancestor_obj ---------- *)

(* for ALL dumps with consistent parent pointers and ALL pairs of objects
   (normal, memory, I/O, Misc): the loop terminates (the fuel of the model is
   never exhausted), never reads a NULL parent, and returns the deepest common
   ancestor: an ancestor-or-self of both of which every common ancestor-or-self
   is an ancestor-or-self.  (Before fix df24cb8 this held for normal objects
   only: a memory object and a PU made the PU side climb past the root;
   corpus/c09/ancestor-numa-pu.case.) *)
Theorem common_ancestor_deepest : forall d a b,
  parents_ok d -> In a (t_objs d) -> In b (t_objs d) ->
  exists r, get_common_ancestor_obj d a b = CA_obj (o_id r) /\ anc d r a /\ anc d r b /\
            forall x, anc d x a -> anc d x b -> anc d x r.
Proof.
  intros d a b P Ha Hb. unfold get_common_ancestor_obj, ca_fuel.
  apply common_ancestor_deepest_l; auto. lia.
Qed.
Print Assumptions common_ancestor_deepest.

Example ex_parents_ok : parents_ok ex_dump3 /\
  (exists pu numa m, get ex_dump3 1 = Some pu /\ get ex_dump3 2 = Some numa /\ get ex_dump3 0 = Some m /\
     get_common_ancestor_obj ex_dump3 pu m = CA_obj 0 /\
     get_common_ancestor_obj ex_dump3 numa pu = CA_obj 0 /\ get_common_ancestor_obj ex_dump3 pu numa = CA_obj 0 /\
     get_common_ancestor_obj ex_dump3 numa numa = CA_obj 2).
Proof.
  split.
  - constructor.
    + intros o H. cbn in H. destruct H as [<- | [<- | [<- | []]]]; reflexivity.
    + intros o p H E. cbn in H. destruct H as [<- | [<- | [<- | []]]]; cbn in E; try discriminate;
      inversion E; subst; (split; [now left|cbn; lia]).
    + intros o o' H H' E E'. cbn in H, H'.
      destruct H as [<- | [<- | [<- | []]]]; cbn in E; try discriminate;
      destruct H' as [<- | [<- | [<- | []]]]; cbn in E'; try discriminate; reflexivity.
    + intros o p H D E. cbn in H. destruct H as [<- | [<- | [<- | []]]].
      * cbn in E. discriminate.
      * cbn in E. inversion E; subst. cbn; lia.
      * exfalso. revert D. unfold HWLOC_TYPE_DEPTH_NUMANODE. cbn. lia.
    + intros o H D. cbn in H. destruct H as [<- | [<- | [<- | []]]].
      * cbn in D. lia.
      * cbn. discriminate.
      * exfalso. revert D. unfold HWLOC_TYPE_DEPTH_NUMANODE. cbn. lia.
    + intros o o' H H' D D'. cbn in H, H'.
      destruct H as [<- | [<- | [<- | []]]]; destruct H' as [<- | [<- | [<- | []]]]; try reflexivity;
      exfalso; revert D D'; unfold HWLOC_TYPE_DEPTH_NUMANODE; cbn; lia.
  - eexists. eexists. eexists. split; [reflexivity|]. split; [reflexivity|]. split; [reflexivity|]. vm_compute. auto.
Qed.

(* ---------- hwloc_get_closest_objs ---------- *)

(* for ALL dumps, ALL sources with a cpuset (normal or memory) and ALL max: the answer is, ring
   after ring going up from src, the objects of src's level inside ancestor j+1 and not inside
   ancestor j (j = 0, 1, ...; ancestor 0 = src), each ring in logical order, cut at max; so it
   is ordered by ancestor distance, and complete when the array was not filled.  With
   consistent parent pointers the chain of ancestors goes up to the root. *)
Theorem closest_sorted_by_ancestor : forall d src max,
  o_cs src <> None ->
  let chain := up_chain d (S (List.length (t_objs d))) src in
  get_closest_objs d src max = firstn (N.to_nat max) (rings (level_objs d (o_depth src)) chain) /\
  (parents_ok d -> In src (t_objs d) -> deref d (o_parent (last chain src)) = None).
Proof. exact closest_sorted_by_ancestor_l. Qed.
Print Assumptions closest_sorted_by_ancestor.

(* Machine 0 { Core 1 { PU 2, PU 3 }, Core 4 { PU 5 } }: from PU 2, first its sibling, then the cousin *)
Definition ex_dump6 : dump :=
  let mk id ty dp par li c := mkDobj id ty dp 0 None par PNull PNull PNull PNull PNull PNull 0 0 0 0 0 li None [] [] [] []
                   (Some (bs_of_N c)) (Some (bs_of_N c)) None None 0 0 (-1) (-1) (-1) (-1) (-1) (-1) (-1) in
  mkDump 0 3 6 [] None None
         [mkLevel 0 (Z.of_N HWLOC_OBJ_MACHINE) 1 [PId 0] PNull; mkLevel 1 (Z.of_N HWLOC_OBJ_CORE) 2 [PId 1; PId 4] PNull;
          mkLevel 2 (Z.of_N HWLOC_OBJ_PU) 3 [PId 2; PId 3; PId 5] PNull] []
         [mk 0 HWLOC_OBJ_MACHINE 0%Z PNull 0 7; mk 1 HWLOC_OBJ_CORE 1%Z (PId 0) 0 3; mk 2 HWLOC_OBJ_PU 2%Z (PId 1) 0 1;
          mk 3 HWLOC_OBJ_PU 2%Z (PId 1) 1 2; mk 4 HWLOC_OBJ_CORE 1%Z (PId 0) 1 4; mk 5 HWLOC_OBJ_PU 2%Z (PId 4) 2 4].
Example ex_closest :
  exists src, get ex_dump6 2 = Some src /\
    map o_id (get_closest_objs ex_dump6 src 8) = [3; 5] /\ map o_id (get_closest_objs ex_dump6 src 1) = [3] /\
    map o_id (up_chain ex_dump6 7 src) = [2; 1; 0].
Proof. eexists. split; [reflexivity|]. vm_compute. auto. Qed.

(* ---------- hwloc_get_obj_with_same_locality (normal / memory types) ---------- *)

Theorem same_locality_sound_complete : forall d src ty mt,
  is_normal (o_type src) || is_memory (o_type src) = true -> is_normal ty || is_memory ty = true ->
  match get_obj_with_same_locality d src ty mt 0 with
  | (Some o, e) => e = E_OK /\ In o (level_objs d (get_type_depth d (Z.of_N ty))) /\
                   opt_bs_eqb (o_cs src) (o_cs o) = true /\ opt_bs_eqb (o_nds src) (o_nds o) = true /\ mt o = true
  | (None, e) => e = E_NOENT /\
                 (get_type_depth d (Z.of_N ty) = HWLOC_TYPE_DEPTH_UNKNOWN \/ get_type_depth d (Z.of_N ty) = HWLOC_TYPE_DEPTH_MULTIPLE \/
                  forall o, In o (level_objs d (get_type_depth d (Z.of_N ty))) ->
                            opt_bs_eqb (o_cs src) (o_cs o) && opt_bs_eqb (o_nds src) (o_nds o) && mt o = false)
  end.
Proof. exact same_locality_sound_complete_l. Qed.
Print Assumptions same_locality_sound_complete.

(* I/O and Misc sources, and flags: for ALL dumps, sources that are neither normal nor memory, ALL
   types and ALL subtype/name filters [mt] *)
Theorem same_locality_io : forall d src ty mt,
  is_normal (o_type src) || is_memory (o_type src) = false ->
  (forall flags, flags <> 0 -> get_obj_with_same_locality d src ty mt flags = (None, E_INVAL)) /\
  (is_io (o_type src) = false -> get_obj_with_same_locality d src ty mt 0 = (None, E_INVAL)) /\
  (is_io (o_type src) = true ->
   (o_type src =? HWLOC_OBJ_OS_DEVICE) || (o_type src =? HWLOC_OBJ_PCI_DEVICE) = true ->
   forall pci, climb_osdev d (S (List.length (t_objs d))) src = Some pci ->
   (ty = HWLOC_OBJ_PCI_DEVICE ->
      get_obj_with_same_locality d src ty mt 0 =
      if (o_type pci =? HWLOC_OBJ_PCI_DEVICE) && mt pci then (Some pci, E_OK) else (None, E_NOENT)) /\
   (ty = HWLOC_OBJ_OS_DEVICE ->
      match get_obj_with_same_locality d src ty mt 0 with
      | (Some c, e) => e = E_OK /\ In c (io_children d pci) /\ o_type c = HWLOC_OBJ_OS_DEVICE /\ mt c = true
      | (None, e) => e = E_NOENT /\ forall c, In c (io_children d pci) -> (o_type c =? HWLOC_OBJ_OS_DEVICE) && mt c = false
      end)).
Proof. exact same_locality_io_l. Qed.
Print Assumptions same_locality_io.

(* Machine 0 { PCI 1 { OSDev 2, OSDev 3 } } *)
Definition ex_dump_io : dump :=
  let mk id ty dp par ich := mkDobj id ty dp 0 None par PNull PNull PNull PNull PNull PNull 0 0 0 0 0 0 None [] [] ich []
                   None None None None 0 0 (-1) (-1) (-1) (-1) (-1) (-1) (-1) in
  mkDump 0 1 4 [] None None [] []
         [mkd 0 HWLOC_OBJ_MACHINE 0 0 0 0 1 ; mk 1 HWLOC_OBJ_PCI_DEVICE HWLOC_TYPE_DEPTH_PCI_DEVICE (PId 0) [PId 2; PId 3];
          mk 2 HWLOC_OBJ_OS_DEVICE HWLOC_TYPE_DEPTH_OS_DEVICE (PId 1) []; mk 3 HWLOC_OBJ_OS_DEVICE HWLOC_TYPE_DEPTH_OS_DEVICE (PId 1) []].
Example ex_same_locality_io :
  exists os3, get ex_dump_io 3 = Some os3 /\
    (let r := get_obj_with_same_locality ex_dump_io os3 HWLOC_OBJ_PCI_DEVICE (fun _ => true) 0 in (option_map o_id (fst r), snd r)) = (Some 1, E_OK) /\
    (let r := get_obj_with_same_locality ex_dump_io os3 HWLOC_OBJ_OS_DEVICE (fun _ => true) 0 in (option_map o_id (fst r), snd r)) = (Some 2, E_OK) /\
    (let r := get_obj_with_same_locality ex_dump_io os3 HWLOC_OBJ_OS_DEVICE (fun o => o_id o =? 3) 0 in (option_map o_id (fst r), snd r)) = (Some 3, E_OK) /\
    (let r := get_obj_with_same_locality ex_dump_io os3 HWLOC_OBJ_OS_DEVICE (fun _ => false) 0 in (option_map o_id (fst r), snd r)) = (None, E_NOENT) /\
    (let r := get_obj_with_same_locality ex_dump_io os3 HWLOC_OBJ_CORE (fun _ => true) 0 in (option_map o_id (fst r), snd r)) = (None, E_INVAL).
Proof. eexists. split; [reflexivity|]. vm_compute. auto. Qed.

(* ---------- hwloc_get_type_depth_with_attr ---------- *)

Theorem type_depth_with_attr_first_group_level : forall d ty gd,
  let r := get_type_depth_with_attr d ty gd in
  match gd with
  | None => r = get_type_depth d ty
  | Some g =>
      if (ty =? Z.of_N HWLOC_OBJ_GROUP)%Z && (get_type_depth d ty =? HWLOC_TYPE_DEPTH_MULTIPLE)%Z && negb (g =? Z.of_N UINT_MAX)%Z then
        (r = HWLOC_TYPE_DEPTH_UNKNOWN /\
         forall l, (l < Z.to_nat (t_depth d))%nat ->
           match level_first d (Z.of_nat l) with Some o => (o_type o =? HWLOC_OBJ_GROUP) && (o_group_depth o =? g)%Z | None => false end = false) \/
        (exists l o, r = Z.of_nat l /\ (l < Z.to_nat (t_depth d))%nat /\ level_first d r = Some o /\
                     o_type o = HWLOC_OBJ_GROUP /\ o_group_depth o = g /\
                     forall l', (l' < l)%nat ->
                       match level_first d (Z.of_nat l') with Some o => (o_type o =? HWLOC_OBJ_GROUP) && (o_group_depth o =? g)%Z | None => false end = false)
      else r = get_type_depth d ty
  end.
Proof. exact type_depth_with_attr_l. Qed.
Print Assumptions type_depth_with_attr_first_group_level.

(* ---------- hwloc_get_type_depth / hwloc_get_depth_type ---------- *)

(* for ALL dumps whose per-depth tables are consistent (tables_ok: the clauses of wf_check about
   levels and type depths) and ALL types / depths: the lookups are mutually inverse wherever
   get_type_depth gives a depth (normal or special); a depth's type maps back to it or to MULTIPLE *)
Theorem type_depth_inverse : forall d, tables_ok d ->
  (forall ty, ty < HWLOC_OBJ_TYPE_MAX ->
     let dep := get_type_depth d (Z.of_N ty) in
     (0 <= dep)%Z \/ special_depth_of ty = Some dep -> get_depth_type d dep = Z.of_N ty) /\
  (forall dep, (0 <= dep < t_depth d)%Z ->
     let ty := get_depth_type d dep in
     (0 <= ty < Z.of_N HWLOC_OBJ_TYPE_MAX)%Z -> get_type_depth d ty = dep \/ get_type_depth d ty = HWLOC_TYPE_DEPTH_MULTIPLE).
Proof. exact type_depth_inverse_l. Qed.
Print Assumptions type_depth_inverse.

Example ex_tables_ok : tables_ok ex_dump3 /\
  get_type_depth ex_dump3 (Z.of_N HWLOC_OBJ_PU) = 1%Z /\ get_depth_type ex_dump3 1 = Z.of_N HWLOC_OBJ_PU /\
  get_depth_type ex_dump3 (get_type_depth ex_dump3 (Z.of_N HWLOC_OBJ_NUMANODE)) = Z.of_N HWLOC_OBJ_NUMANODE.
Proof.
  split; [|vm_compute; auto].
  constructor.
  - intros l H D. cbn in H. destruct H as [<- | [<- | [<- | []]]].
    + split; [reflexivity|]. split; [reflexivity|]. eexists. eexists. split; reflexivity.
    + split; [reflexivity|]. split; [reflexivity|]. eexists. eexists. split; reflexivity.
    + exfalso. vm_compute in D. now apply D.
  - intros dep [D1 D2]. change (t_depth ex_dump3) with 2%Z in D2.
    assert (C : dep = 0%Z \/ dep = 1%Z) by lia. destruct C as [-> | ->].
    + eexists. split; [left; reflexivity|reflexivity].
    + eexists. split; [right; left; reflexivity|reflexivity].
  - intros ty Hty Hd. assert (C : In ty all_types) by (apply all_types_complete; exact Hty). vm_compute in C.
    repeat (destruct C as [<- | C];
            [first [ exfalso; vm_compute in Hd; now apply Hd
                   | eexists; split; [left; reflexivity|split; reflexivity]
                   | eexists; split; [right; left; reflexivity|split; reflexivity] ]|]).
    contradiction.
  - intros ty sd Hty Hs. assert (C : In ty all_types) by (apply all_types_complete; exact Hty). vm_compute in C.
    repeat (destruct C as [<- | C]; [first [ discriminate Hs | (vm_compute in Hs; inversion Hs; subst; reflexivity) ]|]).
    contradiction.
  - intros l H D Ht. cbn in H. destruct H as [<- | [<- | [<- | []]]].
    + left. reflexivity.
    + left. reflexivity.
    + exfalso. vm_compute in D. now apply D.
  - vm_compute. discriminate.
Qed.

(* ---------- hwloc_bitmap_singlify_per_core ---------- *)

Theorem singlify_per_core_at_most_one : forall which cores s,
  pairwise_disjoint (map dcs cores) = true ->
  (forall c i j, In c cores ->
     mem i (bitmap_singlify_per_core cores s which) = true -> mem i (dcs c) = true ->
     mem j (bitmap_singlify_per_core cores s which) = true -> mem j (dcs c) = true -> i = j) /\
  (forall i, (forall c, In c cores -> mem i (dcs c) = false) -> mem i (bitmap_singlify_per_core cores s which) = mem i s).
Proof. exact singlify_per_core_at_most_one_l. Qed.
Print Assumptions singlify_per_core_at_most_one.

Example ex_singlify :
  let cores := map odata [ex_core0; ex_core1] in
  pairwise_disjoint (map dcs cores) = true /\
  bitmap_singlify_per_core cores (bs_of_N 15) 1 = bs_of_N 10 /\      (* second PU of Core0, Core1 has no second PU, PU3 is in no core *)
  bitmap_singlify_per_core cores (bs_of_N 15) 0 = bs_of_N 13.
Proof. vm_compute. auto. Qed.

(* ---------- statements that were false before the fixes df9b650 / df24cb8 / 18dcd81 (cases kept in corpus/c09) ---------- *)

(* hwloc_get_closest_objs with a memory source now searches the source's special level
   (before: levels[-3], heap-buffer-overflow read; corpus/c09/closest-numa-src.case) *)
Example closest_objs_memory_source :
  exists src, get ex_dump3 2 = Some src /\ o_cs src <> None /\ get_closest_objs ex_dump3 src 4 = [].
Proof. eexists. split; [reflexivity|]. split; [vm_compute; discriminate|]. vm_compute. reflexivity. Qed.

(* for ALL CPU-less roots, n, until, flags: the call fails with EINVAL and writes nothing
   (before: returned 0 leaving the n slots unwritten; corpus/c09/distrib-cpuless.case).
   Together with distrib_count: exactly n sets, or an error. *)
Theorem distrib_cpuless_roots_einval : forall roots n until flags,
  Forall (fun r => weight_u (fst r) = 0) roots ->
  fst (fst (hwloc_distrib roots n until flags)) = (-1)%Z /\ snd (fst (hwloc_distrib roots n until flags)) = 1 /\
  snd (hwloc_distrib roots n until flags) = D_ok [].
Proof. exact hwloc_distrib_cpuless. Qed.
Print Assumptions distrib_cpuless_roots_einval.

Example ex_distrib_cpuless :
  hwloc_distrib [(bs_empty, leaf (mkd 0 HWLOC_OBJ_PACKAGE 1 0 0 0 0))] 2 INT_MAX 0 = ((-1)%Z, 1, D_ok []).
Proof. vm_compute. reflexivity. Qed.
