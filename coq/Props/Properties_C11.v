(* C11 - property theorems only.  Finite-domain statements are proved by
   vm_compute over the whole regenerated domain (bound stated in each theorem:
   all HWLOC_OBJ_TYPE_MAX types / pairs of types). *)
From Coq Require Import List NArith ZArith Bool Lia.
From HV Require Import Gen.Tables Text.TypeOrder.
Local Open Scope N_scope.

(* the model of hwloc_compare_types agrees with the table the C function
   itself produced when the translator ran it over all pairs *)
Theorem compare_types_model_is_table :
  forall a b, a < HWLOC_OBJ_TYPE_MAX -> b < HWLOC_OBJ_TYPE_MAX ->
  (compare_types a b =? nthN (nthN compare_types_tbl a nil) b 0%Z)%Z = true.
Proof. apply forall_types2. vm_compute. reflexivity. Qed.
Print Assumptions compare_types_model_is_table.

Theorem compare_types_antisym :
  forall a b, a < HWLOC_OBJ_TYPE_MAX -> b < HWLOC_OBJ_TYPE_MAX ->
  (if (compare_types a b =? HWLOC_TYPE_UNORDERED)%Z then (compare_types b a =? HWLOC_TYPE_UNORDERED)%Z
   else (compare_types b a =? - compare_types a b)%Z) = true.
Proof. apply forall_types2. vm_compute. reflexivity. Qed.
Print Assumptions compare_types_antisym.

(* Machine is above every other type, PU below every other normal type *)
Theorem compare_types_machine_top :
  forall t, t < HWLOC_OBJ_TYPE_MAX ->
  implb (negb (t =? HWLOC_OBJ_MACHINE)) ((compare_types HWLOC_OBJ_MACHINE t <? 0)%Z) = true.
Proof. apply forall_types. vm_compute. reflexivity. Qed.
Print Assumptions compare_types_machine_top.

Theorem compare_types_pu_bottom :
  forall t, t < HWLOC_OBJ_TYPE_MAX ->
  implb ((is_normal t && negb (t =? HWLOC_OBJ_PU))) ((compare_types t HWLOC_OBJ_PU <? 0)%Z) = true.
Proof. apply forall_types. vm_compute. reflexivity. Qed.
Print Assumptions compare_types_pu_bottom.

(* exactly one of normal / memory / io / misc *)
Theorem kinds_exclusive :
  forall t, t < HWLOC_OBJ_TYPE_MAX ->
  (((if is_normal t then 1 else 0) + (if is_memory t then 1 else 0) +
    (if is_io t then 1 else 0) + (if is_misc t then 1 else 0)) =? 1)%nat = true.
Proof. apply forall_types. vm_compute. reflexivity. Qed.
Print Assumptions kinds_exclusive.

(* comparable (ordered) pairs are exactly: both normal, or one is Machine, or both non-normal *)
Theorem compare_types_consistent_with_kinds :
  forall a b, a < HWLOC_OBJ_TYPE_MAX -> b < HWLOC_OBJ_TYPE_MAX ->
  implb ((is_normal a && is_normal b)) (negb (compare_types a b =? HWLOC_TYPE_UNORDERED)%Z) = true.
Proof. apply forall_types2. vm_compute. reflexivity. Qed.
Print Assumptions compare_types_consistent_with_kinds.

(* obj_type_order is a permutation of 0..MAX-1 with inverse obj_order_type *)
Theorem type_order_permutation :
  forall t, t < HWLOC_OBJ_TYPE_MAX ->
  ((nthN obj_order_type (nthN obj_type_order t 0) HWLOC_OBJ_TYPE_MAX =? t) &&
   (nthN obj_type_order (nthN obj_order_type t 0) HWLOC_OBJ_TYPE_MAX =? t) &&
   (nthN obj_type_order t HWLOC_OBJ_TYPE_MAX <? HWLOC_OBJ_TYPE_MAX)) = true.
Proof. apply forall_types. vm_compute. reflexivity. Qed.
Print Assumptions type_order_permutation.

(* ====================================================================== *)
(* Type names: hwloc_type_sscanf, hwloc_obj_type_snprintf, hwloc_obj_attr_snprintf
   (models Text/TypeNames.v, lemmas Text/TypeNamesProofs.v).  The statements are
   about the current code: the two variant constants of TypeNames.v say which
   of the modelled variants that is. *)
From Coq Require Import String.
From HV Require Import Base.Bytes Base.Snprintf Text.TypeNames Text.TypeNamesProofs.
Import ListNotations.
Local Open Scope string_scope.

(* ---- the tie of the hand-written keyword chain: equal to the C function on
   the regenerated dictionary (1518 words built from every keyword) ---- *)
Theorem type_sscanf_model_agrees_on_dictionary :
  forallb (dict_ok TYPE_MATCH_STOPS_AT_LITERAL_END) type_sscanf_dict_tbl = true.
Proof. exact (dict_agrees_chk TYPE_MATCH_STOPS_AT_LITERAL_END). Qed.
Print Assumptions type_sscanf_model_agrees_on_dictionary.

Theorem osdev_names_cover_the_osdev_bits :
  osdev_known_mask = N.lor HWLOC_OBJ_OSDEV_STORAGE (N.lor HWLOC_OBJ_OSDEV_MEMORY (N.lor HWLOC_OBJ_OSDEV_GPU
     (N.lor HWLOC_OBJ_OSDEV_COPROC (N.lor HWLOC_OBJ_OSDEV_NETWORK (N.lor HWLOC_OBJ_OSDEV_OPENFABRICS HWLOC_OBJ_OSDEV_DMA)))))
  /\ NoDup (map osdev_bit osdev_names_tbl) /\ List.length osdev_names_tbl = 7%nat.
Proof. exact names_cover_osdev_bits. Qed.
Print Assumptions osdev_names_cover_the_osdev_bits.

(* ---- round trip ---- *)
(* [roundtrip_ok chk loop o flags]: the printer returns a text, hwloc_type_sscanf accepts it (with a
   full-size attribute union, and with attrp = NULL), returns the type of o and stores exactly o's cache
   depth/type, group depth, bridge upstream/downstream type, OS-device type set.
   Finite part, bound: every object that agrees on (type, printed attributes) with one of the 153
   canonical objects of [rt_objs] = 9 attribute-less types, the 13 (depth 1..5, cache type) pairs of
   hwloc_cache_type_by_depth_type, Bridge host/PCI -> PCI, all 128 OS-device words made of the bits of
   names[], Group without depth; every flag word without SHORT_NAMES. *)
Theorem type_roundtrip :
  forall o o' flags, In o' rt_objs -> to_type o = to_type o' -> tkey o = tkey o' ->
  N.land flags HWLOC_OBJ_SNPRINTF_FLAG_SHORT_NAMES = 0 ->
  roundtrip_ok TYPE_MATCH_STOPS_AT_LITERAL_END OSDEV_PRINT_WHILE o flags = true.
Proof. exact (roundtrip_lift TYPE_MATCH_STOPS_AT_LITERAL_END OSDEV_PRINT_WHILE). Qed.
Print Assumptions type_roundtrip.

(* the same, in words, for OS devices: every type word made of the bits of names[] *)
Theorem type_roundtrip_osdev :
  forall o flags, to_type o = HWLOC_OBJ_OS_DEVICE -> to_os o <= osdev_known_mask ->
  N.land flags HWLOC_OBJ_SNPRINTF_FLAG_SHORT_NAMES = 0 ->
  roundtrip_ok TYPE_MATCH_STOPS_AT_LITERAL_END OSDEV_PRINT_WHILE o flags = true.
Proof. exact (roundtrip_osdev_lemma TYPE_MATCH_STOPS_AT_LITERAL_END OSDEV_PRINT_WHILE). Qed.
Print Assumptions type_roundtrip_osdev.
Example type_roundtrip_osdev_nonvacuous :
  In (mk HWLOC_OBJ_OS_DEVICE 0 0 0 0 0 51) rt_objs /\
  type_text (mk HWLOC_OBJ_OS_DEVICE 0 0 0 0 0 51) HWLOC_OBJ_SNPRINTF_FLAG_LONG_NAMES = PrOk (lit "OSDev[Memory,Storage,OpenFabrics,Network]").
Proof. split; [apply in_rt_osdev; vm_compute; discriminate|vm_compute; reflexivity]. Qed.

(* numeric part: Group<depth> for EVERY unsigned depth (general proof over the decimal printer and the
   strtol model, no enumeration), any flag word *)
Theorem type_roundtrip_group :
  forall o flags, to_type o = HWLOC_OBJ_GROUP -> to_gdepth o <= UINT_MAX ->
  roundtrip_ok TYPE_MATCH_STOPS_AT_LITERAL_END OSDEV_PRINT_WHILE o flags = true.
Proof. exact (roundtrip_group TYPE_MATCH_STOPS_AT_LITERAL_END OSDEV_PRINT_WHILE). Qed.
Print Assumptions type_roundtrip_group.
Example type_roundtrip_group_nonvacuous :
  type_text (mk HWLOC_OBJ_GROUP 0 0 4294967294 0 0 0) 0 = PrOk (lit "Group4294967294").
Proof. vm_compute. reflexivity. Qed.

(* hwloc_obj_type_string(t) parses back to t, all HWLOC_OBJ_TYPE_MAX types *)
Theorem type_string_roundtrip :
  forall t, t < HWLOC_OBJ_TYPE_MAX -> type_string_ok TYPE_MATCH_STOPS_AT_LITERAL_END t = true.
Proof. exact (type_string_roundtrip_lemma TYPE_MATCH_STOPS_AT_LITERAL_END). Qed.
Print Assumptions type_string_roundtrip.

(* ---- the text is a function of (type, printed attributes, flags): objects of a level that agree on
   them print the same text, whatever their other fields ---- *)
Theorem type_text_function_of_attrs :
  forall o1 o2 flags, to_type o1 = to_type o2 -> tkey o1 = tkey o2 ->
  type_snprintf_pieces o1 flags = type_snprintf_pieces o2 flags /\
  forall init, type_snprintf init o1 flags = type_snprintf init o2 flags.
Proof. exact (type_text_function_lemma OSDEV_PRINT_WHILE). Qed.
Print Assumptions type_text_function_of_attrs.
Example type_text_function_of_attrs_nonvacuous :
  tkey (TO HWLOC_OBJ_L2CACHE 2 1 7 7 7 7) = tkey (TO HWLOC_OBJ_L2CACHE 2 1 0 1 2 3).
Proof. reflexivity. Qed.

(* ---- length contracts (Base/Snprintf.emit_all_contract) ---- *)
(* whenever the printer returns (pieces ps), for EVERY caller buffer init (any size, [] = NULL/0):
   returned value = untruncated length, nothing stored at an index >= size, NUL-terminated truncated
   prefix when size > 0, bytes after the terminator untouched *)
Theorem type_snprintf_contract :
  forall o flags init ps, type_snprintf_pieces o flags = PrOk ps ->
  exists st, type_snprintf init o flags = PrOk (Some st) /\ contract init (List.concat ps) st.
Proof. exact (type_snprintf_contract_gen OSDEV_PRINT_WHILE). Qed.
Print Assumptions type_snprintf_contract.

(* objects of a loaded topology: I/O objects have total_memory = 0 (io_without_memory) *)
Theorem attr_snprintf_contract :
  forall a sep flags init ops, io_without_memory a -> attr_snprintf_ops a sep flags = PrOk ops ->
  exists st, attr_snprintf init a sep flags = PrOk (Some st) /\ contract init (List.concat (map pop_text ops)) st.
Proof. exact attr_snprintf_contract_lemma. Qed.
Print Assumptions attr_snprintf_contract.
Theorem attr_snprintf_returns :
  forall a sep flags, (ao_type a = HWLOC_OBJ_BRIDGE -> ao_bdown a = HWLOC_OBJ_BRIDGE_PCI) ->
  exists ops, attr_snprintf_ops a sep flags = PrOk ops.
Proof. exact attr_ops_ok. Qed.
Print Assumptions attr_snprintf_returns.
(* outside that hypothesis the faithful model (and the C code: harness "latent" cases) returns a value that
   is not the length of the text: a PCI device with total_memory = 1 MiB, MORE_ATTRS, 96-byte buffer returns
   65 while the text has 52 bytes.  No loaded topology contains such an object. *)
Theorem attr_snprintf_contract_io_memory_refuted :
  exists st, attr_snprintf (repeat 170 96) IO_MEMORY_WITNESS [32] HWLOC_OBJ_SNPRINTF_FLAG_MORE_ATTRS = PrOk (Some st)
    /\ ps_ret st = 65%nat /\ nth 52 (ps_buf st) 1 = 0 /\ ~ In 0 (firstn 52 (ps_buf st)).
Proof. exact attr_io_memory_witness. Qed.
Print Assumptions attr_snprintf_contract_io_memory_refuted.
Example attr_snprintf_contract_nonvacuous :
  io_without_memory (AO HWLOC_OBJ_L2CACHE 0 0 262144 64 8 0 0 0 0 0 0 0 0 0 0 0 0 false [] [(lit "Inclusive", lit "1")]) /\
  exists ops, attr_snprintf_ops (AO HWLOC_OBJ_L2CACHE 0 0 262144 64 8 0 0 0 0 0 0 0 0 0 0 0 0 false [] [(lit "Inclusive", lit "1")])
                                [32] HWLOC_OBJ_SNPRINTF_FLAG_MORE_ATTRS = PrOk ops /\
              List.concat (map pop_text ops) = lit "size=256KiB linesize=64 ways=8 Inclusive=1".
Proof. split; [intros [H|H]; discriminate H|eexists; split; vm_compute; reflexivity]. Qed.

(* ---- hwloc_type_sscanf on arbitrary NUL-terminated strings: returns 0 or -1, never reads outside the
   caller's block nor outside a keyword literal (current code, /repo c06b512) ---- *)
Theorem type_sscanf_total :
  forall s n asz, cstring s n -> bytes_ok s -> exists r, type_sscanf_cur s asz = Ok r.
Proof. exact (fun s n asz Hs Hb => type_sscanf_total_gen true s n asz Hs Hb (or_introl eq_refl)). Qed.
Print Assumptions type_sscanf_total.
Example type_sscanf_total_nonvacuous : cstring E0_WITNESS 4 /\ bytes_ok E0_WITNESS.
Proof. exact (conj (proj1 sscanf_e0_witness) (proj1 (proj2 sscanf_e0_witness))). Qed.
(* regression witness of the defect fixed by /repo c06b512: on the previous code (variant false) the same
   string made hwloc__type_match read past the literal "pu" *)
Theorem type_sscanf_total_before_c06b512_refuted :
  type_sscanf false E0_WITNESS (Some SIZEOF_ATTR_UNION) = Oob /\
  type_sscanf_cur E0_WITNESS (Some SIZEOF_ATTR_UNION) = Ok (Some (HWLOC_OBJ_PU, AWnone)).
Proof. exact (proj2 (proj2 sscanf_e0_witness)). Qed.
Print Assumptions type_sscanf_total_before_c06b512_refuted.

(* ---- termination of the OS-device printer ---- *)
(* BEGIN osdev-loop (fixed code, patches/fix-C11-osdev-unknown-bit.diff: `if (ostype)` and one pass;
   OSDEV_PRINT_WHILE = false) *)
(* the printer returns for EVERY OS-device type word and every flag word; the only non-returning case left
   is the assert() on a Bridge whose downstream type is not PCI (excluded at XML import since /repo 8cfd253) *)
Theorem osdev_print_terminates :
  forall o flags, (to_type o = HWLOC_OBJ_BRIDGE -> to_bdown o = HWLOC_OBJ_BRIDGE_PCI) ->
  exists ps, type_snprintf_pieces o flags = PrOk ps.
Proof. exact (fun o flags Hb => type_pieces_ok OSDEV_PRINT_WHILE o flags Hb (fun H => match Bool.diff_false_true H with end)). Qed.
Print Assumptions osdev_print_terminates.
(* on words made of known bits the fixed code prints what the old code printed *)
Theorem osdev_fix_preserves_known_words :
  forall o flags, N.ldiff (to_os o) osdev_known_mask = 0 ->
  type_snprintf_pieces_gen true o flags = type_snprintf_pieces o flags.
Proof. exact type_pieces_variants_agree. Qed.
Print Assumptions osdev_fix_preserves_known_words.
(* regression witness of the fixed defect: on the previous code (`while (ostype)`, variant true) the word
   4096 (XML osdev_type="4096") repeats the loop state forever *)
Theorem osdev_print_terminates_before_fix_refuted :
  UNKNOWN_BIT_WORD <= Strto.ULONG_MAX /\
  (forall longn c acc, osdev_pass longn (UNKNOWN_BIT_WORD, c, acc) = (UNKNOWN_BIT_WORD, c, acc)) /\
  (forall fuel longn c acc, osdev_while fuel longn (UNKNOWN_BIT_WORD, c, acc) = None) /\
  (forall flags, flag_set flags HWLOC_OBJ_SNPRINTF_FLAG_SHORT_NAMES = false ->
     type_snprintf_pieces_gen true (mk HWLOC_OBJ_OS_DEVICE 0 0 0 0 0 UNKNOWN_BIT_WORD) flags = PrLoop).
Proof. exact osdev_loop_witness. Qed.
Print Assumptions osdev_print_terminates_before_fix_refuted.
(* END osdev-loop *)

(* ====================================================================== *)
(* operations the property's functions go through (coverage extension) *)

(* hwloc_type_sscanf_as_depth: never reads outside the string; the error of hwloc_type_sscanf or (type, depth) *)
Theorem type_sscanf_as_depth_total :
  forall levels tdepths s n, cstring s n -> bytes_ok s -> exists r, type_sscanf_as_depth_cur levels tdepths s = Ok r.
Proof. exact (fun levels tdepths s n Hs Hb => type_sscanf_as_depth_total true levels tdepths s n Hs Hb (or_introl eq_refl)). Qed.
Print Assumptions type_sscanf_as_depth_total.

(* hwloc_get_type_depth_with_attr is hwloc_get_type_depth except for a Group with several Group levels and a
   depth given through a full-size attribute union *)
Theorem get_type_depth_with_attr_plain :
  forall levels tdepths t attr asz,
  t <> HWLOC_OBJ_GROUP \/ get_type_depth tdepths t <> HWLOC_TYPE_DEPTH_MULTIPLE \/ attr = None \/ attr = Some NEG1U \/ asz < SIZEOF_ATTR_UNION ->
  get_type_depth_with_attr levels tdepths t attr asz = get_type_depth tdepths t.
Proof. exact depth_with_attr_plain. Qed.
Print Assumptions get_type_depth_with_attr_plain.

(* round trip to the LEVEL: for every topology (any list of levels) with several Group levels, the text
   "Group<gd>" printed for the Groups of level k parses back to (Group, k), for every depth value gd, provided no
   other level holds Groups of that depth *)
Theorem group_level_text_roundtrip :
  forall levels tdepths gd k,
  get_type_depth tdepths HWLOC_OBJ_GROUP = HWLOC_TYPE_DEPTH_MULTIPLE -> gd < UINT_MAX ->
  nth_error levels k = Some (HWLOC_OBJ_GROUP, gd) ->
  (forall j, nth_error levels j = Some (HWLOC_OBJ_GROUP, gd) -> j = k) ->
  type_sscanf_as_depth_cur levels tdepths ((GROUP_TXT ++ dec gd) ++ [0]) = Ok (Some (HWLOC_OBJ_GROUP, Z.of_nat k)).
Proof. exact (group_text_finds_its_level TYPE_MATCH_STOPS_AT_LITERAL_END). Qed.
Print Assumptions group_level_text_roundtrip.
Example group_level_text_roundtrip_nonvacuous :
  type_sscanf_as_depth_cur [(0, 0); (13, 0); (13, 1); (4, 0)]
     [0%Z; (-1)%Z; (-1)%Z; (-1)%Z; 3%Z; (-1)%Z; (-1)%Z; (-1)%Z; (-1)%Z; (-1)%Z; (-1)%Z; (-1)%Z; (-1)%Z; (-2)%Z; (-3)%Z; (-8)%Z; (-4)%Z; (-5)%Z; (-6)%Z; (-7)%Z]
     (lit "Group1" ++ [0]) = Ok (Some (HWLOC_OBJ_GROUP, 2%Z)).
Proof. vm_compute. reflexivity. Qed.

(* memory tier names: every name hwloc_memory_tier_type_snprintf can return is accepted by _sscanf, gives back
   the value (CXL alone is printed as, and parsed to, CXL|DRAM) and prints as the same name again *)
Theorem memory_tier_name_roundtrip :
  forall t n, tier_type_snprintf t = Some n ->
  tier_type_sscanf (cstr n) = Ok (tier_canon t) /\ tier_type_snprintf (tier_canon t) = Some n.
Proof. exact tier_roundtrip. Qed.
Print Assumptions memory_tier_name_roundtrip.
Example memory_tier_name_roundtrip_nonvacuous : tier_type_snprintf TIER_CXL = Some "CXL-DRAM".
Proof. reflexivity. Qed.
(* for any NUL-terminated string: no read outside it, and the result is 0 or a value the printer names *)
Theorem memory_tier_sscanf_total :
  forall s n, cstring s n -> exists v, tier_type_sscanf s = Ok v /\ (v = 0 \/ exists name, tier_type_snprintf v = Some name).
Proof. exact tier_sscanf_total. Qed.
Print Assumptions memory_tier_sscanf_total.

(* hwloc_pci_class_string: for EVERY class id the name is 1..27 printable bytes without blank or parenthesis
   (so "class=%04x(%s)" stays parseable and fits the fixed-size buffers of hwloc_obj_attr_snprintf) *)
Theorem pci_class_string_wellformed :
  forall class_id, class_name_ok (pci_class_string class_id) = true.
Proof. exact TypeNamesProofs.pci_class_string_wellformed. Qed.
Print Assumptions pci_class_string_wellformed.
