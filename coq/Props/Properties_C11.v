(* C11 - property theorems only.  Finite-domain statements are proved by
   vm_compute over the whole regenerated domain (bound stated in each theorem:
   all HWLOC_OBJ_TYPE_MAX types / pairs of types). *)
From Coq Require Import List NArith ZArith Bool Lia.
From HV Require Import Gen.Tables Text.TypeOrder.
Local Open Scope N_scope.

(* the model of hwloc_compare_types agrees with the table the C function
   itself produced when the translator ran it over all pairs *)
Theorem compare_types_model_is_table :
  forall a b, a < HWLOC_OBJ_TYPE_MAX -> b < HWLOC_OBJ_TYPE_MAX ->
  (compare_types a b =? nthN (nthN compare_types_tbl a nil) b 0%Z)%Z = true.
Proof. apply forall_types2. vm_compute. reflexivity. Qed.
Print Assumptions compare_types_model_is_table.

Theorem compare_types_antisym :
  forall a b, a < HWLOC_OBJ_TYPE_MAX -> b < HWLOC_OBJ_TYPE_MAX ->
  (if (compare_types a b =? HWLOC_TYPE_UNORDERED)%Z then (compare_types b a =? HWLOC_TYPE_UNORDERED)%Z
   else (compare_types b a =? - compare_types a b)%Z) = true.
Proof. apply forall_types2. vm_compute. reflexivity. Qed.
Print Assumptions compare_types_antisym.

(* Machine is above every other type, PU below every other normal type *)
Theorem compare_types_machine_top :
  forall t, t < HWLOC_OBJ_TYPE_MAX ->
  implb (negb (t =? HWLOC_OBJ_MACHINE)) ((compare_types HWLOC_OBJ_MACHINE t <? 0)%Z) = true.
Proof. apply forall_types. vm_compute. reflexivity. Qed.
Print Assumptions compare_types_machine_top.

Theorem compare_types_pu_bottom :
  forall t, t < HWLOC_OBJ_TYPE_MAX ->
  implb ((is_normal t && negb (t =? HWLOC_OBJ_PU))) ((compare_types t HWLOC_OBJ_PU <? 0)%Z) = true.
Proof. apply forall_types. vm_compute. reflexivity. Qed.
Print Assumptions compare_types_pu_bottom.

(* exactly one of normal / memory / io / misc *)
Theorem kinds_exclusive :
  forall t, t < HWLOC_OBJ_TYPE_MAX ->
  (((if is_normal t then 1 else 0) + (if is_memory t then 1 else 0) +
    (if is_io t then 1 else 0) + (if is_misc t then 1 else 0)) =? 1)%nat = true.
Proof. apply forall_types. vm_compute. reflexivity. Qed.
Print Assumptions kinds_exclusive.

(* comparable (ordered) pairs are exactly: both normal, or one is Machine, or both non-normal *)
Theorem compare_types_consistent_with_kinds :
  forall a b, a < HWLOC_OBJ_TYPE_MAX -> b < HWLOC_OBJ_TYPE_MAX ->
  implb ((is_normal a && is_normal b)) (negb (compare_types a b =? HWLOC_TYPE_UNORDERED)%Z) = true.
Proof. apply forall_types2. vm_compute. reflexivity. Qed.
Print Assumptions compare_types_consistent_with_kinds.

(* obj_type_order is a permutation of 0..MAX-1 with inverse obj_order_type *)
Theorem type_order_permutation :
  forall t, t < HWLOC_OBJ_TYPE_MAX ->
  ((nthN obj_order_type (nthN obj_type_order t 0) HWLOC_OBJ_TYPE_MAX =? t) &&
   (nthN obj_type_order (nthN obj_order_type t 0) HWLOC_OBJ_TYPE_MAX =? t) &&
   (nthN obj_type_order t HWLOC_OBJ_TYPE_MAX <? HWLOC_OBJ_TYPE_MAX)) = true.
Proof. apply forall_types. vm_compute. reflexivity. Qed.
Print Assumptions type_order_permutation.
