(* C20 - property theorems only (proofs: Text/CalcProofs.v).

   Model: Text/Calc.v - the location evaluator of utils/hwloc/hwloc-calc.h
   (hwloc_calc_append_object_range: unsigned loop, wrap-around, "to the end"
   amount, assert), the parsers over checked strings, the option loop and
   hwloc_calc_output of hwloc-calc.c; tied to the REAL tool by checks/c20.py.

   Proved for ALL topologies (an arbitrary type of levels [LV] and an arbitrary
   function [objs] giving the objects of each level with arbitrary cpusets,
   nodesets and OS indexes), ALL parsed chains type:range(.type:range)*, ALL
   enclosing sets and accumulators:
     calc_denotes          the C-shaped loop (logical indexes) computes the denotation of hwloc(7)
                           wherever the C integer arithmetic does not wrap ([chain_ok]);
     calc_list_denotes     a list of locations is the left fold of the operators (union, ~ x ^);
     calc_single, calc_N_eq_len_I, calc_largest_roundtrip;
     calc_parse_total      the calc-specific parsers are total on every NUL-terminated argument (never Oob).
     calc_denotes_physical the same for physical indexes, forms X and X-Y;
     calc_open_range_beyond_level_empty, calc_denotes_domain, calc_parsed_range_fits_int,
     calc_parsed_range_in_domain: after fixes 01261ca and 99dfc63 every range the parser accepts (for every
                           string) is in the domain of calc_denotes.
   Refuted on the faithful model (replayed on the real tool, see known_findings.txt): signed overflow of
   last-first+1 for last = LONG_MAX (UB), physical all/odd/even/X-. *)
From Coq Require Import List NArith ZArith Bool String.
From HV Require Import Base.BSet Base.Bytes Gen.Tables Topo.Dump Topo.Obj Topo.Helpers Text.Calc Text.CalcProofs.
Import ListNotations.
Local Open Scope Z_scope.

(* ================= the evaluator computes the documented meaning ================= *)
(* [denote]: X, X-Y, X-, X:N (wrapping), all, odd, even select POSITIONS among the objects of the level
   that lie inside the enclosing object; the result is the union of their sets, or of the meanings of
   the rest of the chain below each of them.  [eval_chain]: what hwloc_calc_append_object_range does. *)
Theorem calc_denotes : forall (LV : Type) (objs : LV -> list cobj) (c : chain LV) lv rcs rns acc,
  chain_ok LV objs c lv rcs rns ->
  exists ok, eval_chain LV objs true None c lv rcs rns acc = EAcc ok (union2 acc (denote LV objs c lv rcs rns)).
Proof. exact eval_chain_denotes. Qed.
Print Assumptions calc_denotes.

(* the domain is not empty: "1.<lv1>:0-1" and a wrapping "2:3" on a two-level topology *)
Definition ex_objs (lv : nat) : list cobj :=
  match lv with
  | O => [CO (bs_of_N 3) (bs_of_N 1) 0; CO (bs_of_N 12) (bs_of_N 1) 1]                         (* 2 packages *)
  | _ => [CO (bs_of_N 1) (bs_of_N 1) 0; CO (bs_of_N 2) (bs_of_N 1) 1; CO (bs_of_N 4) (bs_of_N 1) 2; CO (bs_of_N 8) (bs_of_N 1) 3]
  end%N.
Definition ex_chain : chain nat := CNext (RG 1 1 1 false) 1%nat (CEnd (RG 0 2 1 false)).
Example calc_denotes_non_vacuous :
  chain_ok nat ex_objs ex_chain 0%nat (bs_of_N 15) (bs_of_N 1)
  /\ eval_chain nat ex_objs true None ex_chain 0%nat (bs_of_N 15) (bs_of_N 1) empty2 = EAcc true (bs_of_N 12, bs_of_N 1)
  /\ eval_chain nat ex_objs true None (CEnd (RG 2 3 1 true)) 1%nat (bs_of_N 15) (bs_of_N 1) empty2 = EAcc true (bs_of_N 13, bs_of_N 1)
  /\ chain_ok nat ex_objs (CEnd (RG 2 3 1 true)) 1%nat (bs_of_N 15) (bs_of_N 1).
Proof.
  split; [|split; [vm_compute; reflexivity|split; [vm_compute; reflexivity|]]].
  - cbn [chain_ok ex_chain]. split.
    + vm_compute. intuition (try discriminate; auto).
    + intros o Ho. change (In o [CO (bs_of_N 3) (bs_of_N 1) 0; CO (bs_of_N 12) (bs_of_N 1) 1]%N) in Ho.
      destruct Ho as [<-|[<-|[]]]; vm_compute; intuition (try discriminate; auto).
  - vm_compute. intuition (try discriminate; auto).
Qed.

(* the parser produces such chains from the documented syntax (resolver: a digit names the level) *)
Definition ex_resolve (t : list N) : res (option (lvl nat)) :=
  match t with [c; 0%N] => Ok (Some (LvNormal (N.to_nat (c - 48)))) | _ => Ok None end.
Example calc_parse_non_vacuous :
  parse_chain nat ex_resolve 20 (cstr "1.1:0-1") 0 = Ok (PChain ex_chain)
  /\ parse_chain nat ex_resolve 20 (cstr "odd") 0 = Ok (PChain (CEnd (RG 1 (-1) 2 false)))
  /\ parse_chain nat ex_resolve 20 (cstr "2:3") 0 = Ok (PChain (CEnd (RG 2 3 1 true)))
  /\ parse_chain nat ex_resolve 20 (cstr "3-") 0 = Ok (PChain (CEnd (RG 3 (-1) 1 false)))
  /\ parse_chain nat ex_resolve 20 (cstr "0.zz:0") 0 = Ok (PChain CFail).
Proof. vm_compute. repeat split. Qed.

(* ================= parsing arbitrary NUL-terminated arguments ================= *)
(* hwloc_calc_parse_level_size, hwloc_calc_parse_range and the chained parsing of
   hwloc_calc_append_object_range return (accept or reject) on EVERY NUL-terminated string, from every
   start inside it, without a read outside the block ([Oob] is what ASan would report), for any level
   resolver that itself stays inside the NUL-terminated copy of the type name it is given
   (hwloc_type_sscanf: C11, where the 0xE0 over-read of hwloc__type_match is the known exception). *)
Theorem calc_parse_total : forall (LV : Type) (resolve : list N -> res (option (lvl LV))) s n,
  cstring s n -> (forall t, nul_terminated t -> resolve t <> Oob) ->
  forall p, (p <= n)%N ->
    (exists l, parse_level_size s p = Ok l /\ (p + l <= n)%N)
    /\ (exists r, parse_range s p = Ok r)
    /\ parse_chain LV resolve (S (List.length s)) s p <> Oob.
Proof. exact calc_parsers_total.
Qed.
Print Assumptions calc_parse_total.

Example calc_parse_total_non_vacuous :
  cstring (cstr "1.1:0-1") 7 /\ (forall t, nul_terminated t -> ex_resolve t <> Oob).
Proof.
  split.
  - change (cstr "1.1:0-1") with ([49; 46; 49; 58; 48; 45; 49] ++ 0 :: [])%N.
    apply (cstring_app [49; 46; 49; 58; 48; 45; 49]%N []). repeat constructor; discriminate.
  - intros t _. unfold ex_resolve. destruct t as [|c [|z t']]; try discriminate. destruct z; [destruct t'|]; discriminate.
Qed.

(* ================= location lists ================= *)
(* arguments that are locations (not options) and are accepted: the state after the loop of main()
   holds the left fold of the operators over what each argument names *)
Theorem calc_list_denotes : forall d limit st0 args items st, input_opts st = input_opts st0 ->
  Forall2 (fun a it => is_dash (content a) = false
                       /\ process_arg_d d limit st0 a = Ok (fst it, LSets (snd it))) args items ->
  exists st', main_loop d limit st args = Ok (inl st')
              /\ s_sets st' = fold_left (fun acc it => apply_mode2 (fst it) acc (snd it)) items (s_sets st)
              /\ s_nloc st' = (s_nloc st + N.of_nat (List.length items))%N
              /\ input_opts st' = input_opts st0.
Proof. exact main_loop_locations. Qed.
Print Assumptions calc_list_denotes.

(* the operators are the set operations *)
Theorem calc_operators : forall i a b,
  mem i (apply_mode MAdd a b) = mem i a || mem i b /\
  mem i (apply_mode MClr a b) = mem i a && negb (mem i b) /\
  mem i (apply_mode MAnd a b) = mem i a && mem i b /\
  mem i (apply_mode MXor a b) = xorb (mem i a) (mem i b).
Proof. intros. cbn [apply_mode]. now rewrite mem_union, mem_diff, mem_inter, mem_xor. Qed.
Print Assumptions calc_operators.

(* ================= --single ================= *)
Theorem calc_single : forall s,
  bs_subset (singlify s) s = true
  /\ (s = bs_empty <-> singlify s = bs_empty)
  /\ (s <> bs_empty -> exists k, bs_first s = Some k /\ singlify s = bs_single k
                                 /\ forall i, mem i (singlify s) = true <-> i = k).
Proof. intros s. split; [apply singlify_subset|split; [apply singlify_empty|apply singlify_first]]. Qed.
Print Assumptions calc_single.

(* ================= -N equals the number of entries -I prints ================= *)
Theorem calc_N_eq_len_I : forall lv cs ns lo oo,
  count_loop lv cs ns 0 = N.of_nat (List.length (intersect_loop lv cs ns lo oo)).
Proof. exact count_eq_length_intersect. Qed.
Print Assumptions calc_N_eq_len_I.

(* ================= --largest ================= *)
(* if the --largest loop ends normally, the cpusets of the objects it printed make up exactly the set,
   provided every object hwloc_get_first_largest_obj_inside_cpuset returns is included in the set it
   was asked for (C09: holds for sets included in the root cpuset of a well-formed tree); naming these
   objects again (type:logical index, union) therefore gives the same set *)
Theorem calc_largest_roundtrip : forall root fuel set l,
  largest_loop fuel root set = (l, true) ->
  (forall s o, get_first_largest_obj_inside_cpuset root s = Some o -> bs_subset (cs o) s = true) ->
  fold_right (fun o acc => bs_union (dcs o) acc) bs_empty l = set.
Proof. exact largest_loop_union. Qed.
Print Assumptions calc_largest_roundtrip.

(* ================= the range classes repaired by fix 01261ca ================= *)
(* (before the fix: "X-" beyond the level and "X-Y" with Y < X-1 looped ~2^32 times, "X:-1" hit the
   assert(); corpus/c20/{open-range-beyond-hang,reversed-range-hang,negative-width-assert}.case) *)

(* "X-" with X at or beyond the end of the level: no iteration at all, for every level width *)
Theorem calc_open_range_beyond_level_empty : forall r w,
  r_amount r = -1 -> 0 <= r_first r < 2147483648 -> w <= r_first r -> loop_count r w = 0.
Proof. exact loop_count_open_beyond. Qed.
Print Assumptions calc_open_range_beyond_level_empty.

(* every range built from numbers that fit in an int (first, and first+amount, below 2^31; amount -1
   only as the "to the end" marker without wrap-around) lies in the domain of calc_denotes, whatever the
   width of the level: the hypothesis [chain_ok] now excludes only numbers an int cannot hold *)
Theorem calc_denotes_domain : forall first amount wrap w,
  0 <= w < 2147483648 -> 0 <= first < 2147483648 ->
  (amount = -1 /\ wrap = false) \/ (0 <= amount /\ first + amount < 2147483648) ->
  range_ok (mk_range first amount wrap) w.
Proof. exact mk_range_ok. Qed.
Print Assumptions calc_denotes_domain.

(* reversed ranges and negative widths are rejected by the parser; "3-1" no longer means "3-" *)
Example calc_reversed_and_negative_rejected :
  parse_range (cstr "3-0") 0 = Ok (None, None) /\ parse_range (cstr "3-1") 0 = Ok (None, None)
  /\ parse_range (cstr "0:-1") 0 = Ok (None, None) /\ parse_range (cstr "3-3") 0 = Ok (Some (RG 3 1 1 false), None)
  /\ parse_chain nat ex_resolve 20 (cstr "0:-1") 0 = Ok (PChain CFail).
Proof. vm_compute. repeat split. Qed.

(* ================= after fix 99dfc63: every accepted range fits in an int ================= *)
(* for EVERY string and start position: a range accepted by hwloc_calc_parse_range has a first index in
   [0, INT_MAX], step 1 (2 only for odd/even), and an amount that is either the "to the end" marker
   without wrap-around or lies in [0, INT_MAX]: no long -> int truncation, no negative amount, the
   assert() of hwloc_calc_append_object_range unreachable.  (Single exception, [ub_marker]: see below.) *)
Theorem calc_parsed_range_fits_int : forall s p r dot,
  parse_range s p = Ok (Some r, dot) -> r = ub_marker \/ range_wf r.
Proof. exact parse_range_wf. Qed.
Print Assumptions calc_parsed_range_fits_int.

(* hence every parsed range is in the domain of calc_denotes, for every level an int can count *)
Theorem calc_parsed_range_in_domain : forall r w, range_wf r -> 0 <= w < 2147483648 -> range_ok r w.
Proof. exact range_wf_ok. Qed.
Print Assumptions calc_parsed_range_in_domain.

Example calc_int_truncation_rejected :
  parse_range (cstr "0:4294967295") 0 = Ok (None, None) /\ parse_range (cstr "0-4294967293") 0 = Ok (None, None)
  /\ parse_range (cstr "4294967296") 0 = Ok (None, None) /\ parse_range (cstr "2147483648") 0 = Ok (None, None)
  /\ parse_range (cstr "2147483647") 0 = Ok (Some (RG 2147483647 1 1 false), None)
  /\ range_wf (RG 2147483647 1 1 false).
Proof. vm_compute. intuition (try discriminate; auto). Qed.

(* ================= what is still refuted on the faithful model ================= *)
(* "0-9223372036854775807": last-first+1 overflows long before the INT_MAX test (undefined behaviour;
   the UBSan build aborts: hwloc-calc pu:0-9223372036854775807).  Modelled as [ub_marker] -> CAbort. *)
Theorem calc_long_overflow_refuted :
  parse_range (cstr "0-9223372036854775807") 0 = Ok (Some ub_marker, None)
  /\ parse_chain nat ex_resolve 20 (cstr "0-9223372036854775807") 0 = Ok (PChain CAbort).
Proof. vm_compute. split; reflexivity. Qed.

(* ================= physical indexes ================= *)
(* forms X and X-Y with -p/--pi: for every number of the interval the FIRST object inside the parent
   carrying that OS index (hwloc(7): "the first object matching the given index is used"), at every
   level of the chain, for all topologies *)
Theorem calc_denotes_physical : forall (LV : Type) (objs : LV -> list cobj) (c : chain LV) lv rcs rns acc,
  chain_ok_phys LV objs c lv rcs rns ->
  exists ok, eval_chain LV objs false None c lv rcs rns acc = EAcc ok (union2 acc (denote_phys LV objs c lv rcs rns)).
Proof. exact eval_chain_denotes_phys. Qed.
Print Assumptions calc_denotes_physical.

(* the keyword and open forms are refuted: "all" enumerates 0..width-1 instead of the OS indexes present;
   two objects with OS indexes 2 and 0 inside the parent: only the second is found (hwloc-calc -p pack:1.pu:all) *)
Definition ex_phys (lv : nat) : list cobj := [CO (bs_of_N 1) (bs_of_N 1) 2; CO (bs_of_N 2) (bs_of_N 1) 0]%N.
Theorem calc_physical_all_refuted :
  eval_chain nat ex_phys false None (CEnd (RG 0 (-1) 1 false)) 0%nat (bs_of_N 3) (bs_of_N 1) empty2
    = EAcc true (bs_of_N 2, bs_of_N 1)
  /\ big_union osets (inside_objs (bs_of_N 3) (bs_of_N 1) (ex_phys 0)) = (bs_of_N 3, bs_of_N 1).
Proof. vm_compute. split; reflexivity. Qed.

Example calc_denotes_physical_non_vacuous :
  chain_ok_phys nat ex_phys (CEnd (RG 0 3 1 false)) 0%nat (bs_of_N 3) (bs_of_N 1)
  /\ eval_chain nat ex_phys false None (CEnd (RG 0 3 1 false)) 0%nat (bs_of_N 3) (bs_of_N 1) empty2 = EAcc true (bs_of_N 3, bs_of_N 1).
Proof. split; [|vm_compute; reflexivity]. vm_compute. intuition (try discriminate; auto). Qed.

(* with logical indexes the same request gives all the objects, as calc_denotes says *)
Example calc_logical_all :
  eval_chain nat ex_phys true None (CEnd (RG 0 (-1) 1 false)) 0%nat (bs_of_N 3) (bs_of_N 1) empty2
    = EAcc true (bs_of_N 3, bs_of_N 1).
Proof. vm_compute. reflexivity. Qed.

(* ================= lstopo --of synthetic ================= *)
(* output_synthetic() (1024-byte stack buffer, then a heap buffer of length+1 bytes) writes exactly the
   complete library export followed by a newline, for EVERY export text of EVERY length, given the
   snprintf contract of hwloc_topology_export_synthetic (C07).  Tied to the tool by checks/c20.py on
   export lengths 1022..1026 and beyond (bytes on stdout and in a file, all export flags). *)
Theorem lstopo_synthetic_is_export : forall t, Forall (fun b => b <> 0%N) t -> output_synthetic t = t ++ NL.
Proof. exact output_synthetic_is_export. Qed.
Print Assumptions lstopo_synthetic_is_export.

(* why the second buffer length matters: with buflen = length the last character is lost as soon as the
   export has 1024 characters (what seeded/C20b does; caught by the byte comparison) *)
Theorem lstopo_synthetic_second_buflen_matters : forall t, Forall (fun b => b <> 0%N) t -> (1024 <= List.length t)%nat ->
  output_synthetic_gen (fun l => l) t = removelast t ++ NL.
Proof. exact output_synthetic_short_second_call. Qed.
Print Assumptions lstopo_synthetic_second_buflen_matters.

Example lstopo_synthetic_non_vacuous :
  output_synthetic (repeat 65%N 1024) = repeat 65%N 1024 ++ NL
  /\ output_synthetic (repeat 65%N 1023) = repeat 65%N 1023 ++ NL
  /\ List.length (output_synthetic_gen (fun l => l) (repeat 65%N 1024)) = 1024%nat.
Proof. vm_compute. repeat split. Qed.

(* ================= stdin mode ================= *)
(* the loop of main() that reads locations from stdin reuses the same two bitmaps for every line and zeroes
   them first: its output is the concatenation of the outputs of INDEPENDENT evaluations of the lines, each
   from the same zeroed state - for all topologies (dumps), option states, and lists of lines *)
Theorem calc_stdin_stateless : forall d limit nlv ilv hlv lines st,
  stdin_loop d limit st lines nlv ilv hlv
  = seq_out (map (line_out d limit (zero_sets st) nlv ilv hlv) lines).
Proof. intros. apply stdin_loop_stateless. Qed.
Print Assumptions calc_stdin_stateless.

(* and a line whose tokens are not options is evaluated exactly as the same tokens on the command line *)
Theorem calc_stdin_line_eq_cmdline : forall d limit toks st,
  Forall (fun t => is_dash (content t) = false) toks -> main_loop d limit st toks = line_fold d limit st toks.
Proof. exact line_fold_eq_main_loop. Qed.
Print Assumptions calc_stdin_line_eq_cmdline.

(* the reset of BOTH sets matters: two lines "0x1" and "0x2" with -n (nodeset input and output); the
   variant that does not zero the nodeset (seeded/C20d) prints 0x3 for the second line *)
Definition ex_dump : dump := mkDump 0 1 0 [] None None [] [] [].
Definition ex_st_n : cstate := CS 0 true true true true false false None 1 0 false None None None empty2 0.
Example calc_stdin_reset_matters :
  stdin_loop ex_dump None ex_st_n [[cstr "0x1"]; [cstr "0x2"]] LoNone LoNone None
    = Ok (Exit 0 (bytes_of_string "0x00000001" ++ NL ++ bytes_of_string "0x00000002" ++ NL))
  /\ stdin_loop_gen ex_dump None false ex_st_n [[cstr "0x1"]; [cstr "0x2"]] LoNone LoNone None
    = Ok (Exit 0 (bytes_of_string "0x00000001" ++ NL ++ bytes_of_string "0x00000003" ++ NL))
  /\ tokenize (bytes_of_string "numa:1  numa:2" ++ NL) [] = [cstr "numa:1"; cstr "numa:2"].
Proof. vm_compute. repeat split. Qed.
