(* C17 - documented thread-safety: property theorems only (proofs are in Conc/EventsProofs.v).

   Reading guide.  "for all interleavings" is literal: [is_interleaving progs il] holds for every
   merge of the per-thread event lists, any number of threads, any lengths.  What is NOT proved:
   that the C functions perform exactly the modelled events (tie: harness/hwv_mt.c compares the
   cache-flag trajectory and the cache writes of every call with the model, ThreadSanitizer
   watches the real schedules), and nothing is said about the hardware memory model. *)
From Coq Require Import List Bool Arith PeanoNat NArith Lia.
From HV Require Import Gen.Tables Conc.Events Conc.EventsProofs.
Import ListNotations.

(* ---- tie to the current source: the predefined attributes and their CONVENIENCE / CACHE_VALID bits
        as harness/tables_mt.inc reads them from hwloc_internal_memattrs_prepare() ---- *)
Example predefined_matches_tables :
  map (fun x : bool * bool => mkMa (fst x) (snd x)) c17_predefined_mattrs = predefined_mattrs.
Proof. vm_compute. reflexivity. Qed.

(* ---- a concrete non-trivial state used by the non-vacuity examples: one topology loaded with two
        distances structures and one backend-registered attribute, a third structure added later, one
        XML export already done (statics warm) ---- *)
Definition ex_cfg : loadcfg := mkCfg false false false [4; 2] 1 None true false false false.
Definition ex_glob0 : glob := mkGlob [] [] true 0 true.
Definition ex_s0 : state := mkState [] ex_glob0.
Definition ex_setup : list op :=
  [OInit 0; OLoad 0 ex_cfg; OMod 0 (MDistAdd 3); OMod 0 (MMaSet 2 true); OMod 0 MRefresh; OCons 0 CExportXml].
Definition ex_state : state := fst (fst (run_prog ex_s0 ex_setup)).
Definition ex_cold : state := fst (fst (run_prog ex_s0 [OInit 0; OLoad 0 ex_cfg])).
Definition every_cop : list cop :=
  [CTraverse; CTypePrint; CDistGet; CDistRelease; CMaMeta; CMaGet QValue 2; CMaGet QBestTarget 3;
   CMaGet QBestInitiator 4; CMaGet QTargets 8; CMaGet QInitiators 5; CMaGet QValue 0; CLocalNodes;
   CCpukinds; CSets; CBitmap; CExportXml; CExportSynth false; CDefaultNodeset; CHelpers].
Definition ex_reader : list op := map (OCons 0) every_cop.

Example ex_state_meets_hypotheses :
  all_valid ex_state = true /\ statics_warm (s_glob ex_state) = true /\
  readers_ok (s_glob ex_state) ex_reader = true /\
  option_map (fun tp => (length (t_dists tp), length (t_mattrs tp))) (get_topo ex_state 0) = Some (3, 9).
Proof. vm_compute. repeat split; reflexivity. Qed.

(* ---------------------------------------------------------------- *)
(* hwloc_topology_refresh leaves every cache valid.  NO_MEMATTRS no longer matters (fix 12fb556); under
   NO_DISTANCES refresh still skips the distances, which is harmless as long as they are valid - and under
   that flag nothing ever invalidates them (born valid, restrict skips them): second form *)
Theorem refresh_validates : forall t tp,
  t_nodist tp = false -> topo_valid (fst (do_refresh t tp)) = true.
Proof. exact EventsProofs.refresh_validates. Qed.
Print Assumptions refresh_validates.

Theorem refresh_validates_any_flags : forall t tp,
  (t_nodist tp = true -> forallb d_valid (t_dists tp) = true) -> topo_valid (fst (do_refresh t tp)) = true.
Proof. exact EventsProofs.do_refresh_validates_gen. Qed.
Print Assumptions refresh_validates_any_flags.

Example refresh_validates_nonvacuous :
  let tp := mkTopo true false false false [mkDist 0 false 4 3; mkDist 1 false 4 1; mkDist 2 true 2 2] 3
                   [mkMa true true; mkMa false false; mkMa false true] in
  topo_valid tp = false /\ topo_valid (fst (do_refresh 0 tp)) = true /\ length (t_dists (fst (do_refresh 0 tp))) = 2.
Proof. vm_compute. repeat split; reflexivity. Qed.

(* regression witness (before fix 12fb556 refresh skipped memattrs under NO_MEMATTRS and this history ended
   invalid): a user attribute registered on a NO_MEMATTRS topology, a new target, restrict, refresh *)
Example refresh_nomemattr_user_attribute_regression :
  let p := [OInit 0; OLoad 0 (mkCfg false true false [] 0 None false false false false); OMod 0 MMaRegister; OMod 0 (MMaSet 0 true)] in
  all_valid (fst (fst (run_prog ex_s0 p))) = false /\
  all_valid (fst (fst (run_prog ex_s0 (p ++ [OMod 0 MRefresh])))) = true /\
  all_valid (fst (fst (run_prog ex_s0 (p ++ [OMod 0 MRefresh; OMod 0 (MRestrict true [])])))) = false /\
  all_valid (fst (fst (run_prog ex_s0 (p ++ [OMod 0 MRefresh; OMod 0 (MRestrict true []); OMod 0 MRefresh])))) = true.
Proof. vm_compute. repeat split; reflexivity. Qed.

(* ---------------------------------------------------------------- *)
(* the end of hwloc_topology_load: loaded and everything valid, for every flag combination, whatever the
   discovery registered, whether or not a RESTRICT_TO_*BINDING restrict ran.  (Before fix 970d793 the
   restrict ran after the last refresh and this was refuted; corpus/c17/load-restrict-to-cpubinding.case.) *)
Theorem load_ends_valid : forall t c,
  t_loaded (fst (load_run t c)) = true /\ topo_valid (fst (load_run t c)) = true.
Proof. exact EventsProofs.load_ends_valid. Qed.
Print Assumptions load_ends_valid.

(* regression witness: the configuration that used to end invalid; the restrict does invalidate
   (six CACHE_VALID bits cleared in the event list), the added refresh sets them again *)
Example load_with_binding_restrict_regression :
  let c := mkCfg false false false [4; 3] 0 (Some (Some [2; 1])) false false false false in
  topo_valid (fst (load_run 0 c)) = true /\ length (t_dists (fst (load_run 0 c))) = 1 /\
  length (filter (fun e => match e_loc e with LMaFlags _ _ => e_wr e && Nat.eqb (e_val e) 0 | _ => false end) (snd (load_run 0 c))) = 12.
Proof. vm_compute. repeat split; reflexivity. Qed.

(* ---------------------------------------------------------------- *)
(* EVERY consulting call of the model, on a state whose loaded topologies are all valid: nothing is
   written and the state is unchanged.  For XML export, and for a synthetic export that emits its verbose
   warning, this needs the statics they consult to be warm (_partial, [warm_for]); every other
   consulting call needs nothing more. *)
Theorem valid_reader_writes_nothing_partial : forall s o,
  all_valid s = true -> reader_ok (s_glob s) o = true ->
  fst (fst (run_op s o)) = s /\ writes (snd (run_op s o)) = [].
Proof. exact EventsProofs.run_op_reader. Qed.
Print Assumptions valid_reader_writes_nothing_partial.

Theorem valid_reader_writes_nothing_nonexport : forall s t c,
  all_valid s = true -> uses_statics c = false ->
  fst (fst (run_op s (OCons t c))) = s /\ writes (snd (run_op s (OCons t c))) = [].
Proof.
  intros s t c V U. apply EventsProofs.run_op_reader; [exact V|]. simpl.
  destruct c as [| | | | |q a| | | | | |[|]| |]; try discriminate; reflexivity.
Qed.
Print Assumptions valid_reader_writes_nothing_nonexport.

(* the full statement is false: the first XML export on a freshly loaded, fully valid topology writes *)
Theorem valid_reader_writes_nothing_refuted :
  exists s, all_valid s = true /\
    map e_loc (writes (snd (run_op s (OCons 0 CExportXml)))) =
      [LStChecked SNolibxmlExport].
Proof. exists ex_cold. vm_compute. split; reflexivity. Qed.
Print Assumptions valid_reader_writes_nothing_refuted.

(* ---------------------------------------------------------------- *)
(* generic: non-interfering threads are race free under every interleaving, and what a thread reads
   does not depend on the interleaving when nobody else writes what it touches *)
Theorem noninterfering_race_free : forall progs il,
  is_interleaving progs il -> noninterfering progs -> race_free il.
Proof. exact EventsProofs.noninterfering_race_free. Qed.
Print Assumptions noninterfering_race_free.

Theorem observations_schedule_independent : forall progs il t m,
  is_interleaving progs il -> isolated t progs ->
  obs_of t (exec m il) = obs_of t (exec m (alone t (nth t progs []))).
Proof. exact EventsProofs.observations_schedule_independent. Qed.
Print Assumptions observations_schedule_independent.

Theorem race_detector_sound : forall il, race_b il = false <-> race_free il.
Proof. exact EventsProofs.race_b_false_iff. Qed.

(* the property: any number of reader threads, any programs of consulting calls, any interleaving *)
Theorem interleaving_race_free : forall s progs,
  all_valid s = true ->
  (forall p, In p progs -> readers_ok (s_glob s) p = true) ->
  (forall il, is_interleaving (map (events_of s) progs) il ->
     race_free il /\
     forall t m, obs_of t (exec m il) = obs_of t (exec m (alone t (events_of s (nth t progs []))))) /\
  (forall sched t, fst (run_sched s progs sched) = s /\
     results_of_thread t (snd (run_sched s progs sched)) =
       firstn (count_occ Nat.eq_dec sched t) (results_of s (nth t progs []))).
Proof. exact EventsProofs.interleaving_race_free. Qed.
Print Assumptions interleaving_race_free.

Example interleaving_race_free_nonvacuous :
  (forall p, In p [ex_reader; rev ex_reader; ex_reader] -> readers_ok (s_glob ex_state) p = true) /\
  length (events_of ex_state ex_reader) = 77 /\
  race_b (alone 0 (events_of ex_state ex_reader) ++ alone 1 (events_of ex_state (rev ex_reader))) = false.
Proof.
  split; [|vm_compute; split; reflexivity].
  intros p [H|[H|[H|[]]]]; subst p; vm_compute; reflexivity.
Qed.

(* ---------------------------------------------------------------- *)
(* expected finding: two threads doing their FIRST XML export on a valid topology race on `checked` *)
Theorem env_cache_first_use_races_refuted :
  exists s il,
    all_valid s = true /\
    is_interleaving (map (events_of s) [[OCons 0 CExportXml]; [OCons 0 CExportXml]]) il /\
    ~ race_free il /\
    In (LStChecked SNolibxmlExport) (conflict_locs (map (events_of s) [[OCons 0 CExportXml]; [OCons 0 CExportXml]])).
Proof.
  exists ex_cold.
  exists (alone 0 (events_of ex_cold [OCons 0 CExportXml]) ++ alone 1 (events_of ex_cold [OCons 0 CExportXml])).
  split; [vm_compute; reflexivity|]. split; [apply is_interleaving_seq2|].
  split; [apply race_b_true_not_free; vm_compute; reflexivity | vm_compute; tauto].
Qed.
Print Assumptions env_cache_first_use_races_refuted.

(* under the warm-up hypothesis (one XML export - and, if HWLOC_SYNTHETIC_VERBOSE warnings are possible, one
   synthetic export - done before the threads start): no race, any number of threads, any mix of
   consulting calls including exports *)
Theorem env_cache_first_use_races_partial : forall s progs il,
  all_valid s = true -> all_statics_warm (s_glob s) = true ->
  (forall p, In p progs -> all_cons p = true) ->
  is_interleaving (map (events_of s) progs) il -> race_free il.
Proof.
  intros s progs il V W C Hil. unfold all_statics_warm in W. apply andb_true_iff in W. destruct W as [W1 W2].
  assert (R : forall p, In p progs -> readers_ok (s_glob s) p = true).
  { intros p Hp. specialize (C p Hp). unfold all_cons in C. unfold readers_ok.
    rewrite forallb_forall in *. intros o Ho. specialize (C o Ho). destruct o as [| | | |t c]; try discriminate.
    simpl. destruct c as [| | | | |q a| | | | | |[|]| |]; try reflexivity; assumption. }
  exact (proj1 (proj1 (EventsProofs.interleaving_race_free s progs V R) il Hil)).
Qed.
Print Assumptions env_cache_first_use_races_partial.

(* hwloc__export_synthetic_memory_children's `warned` (HWLOC_SYNTHETIC_VERBOSE set, a memory-side cache
   with several memory children).  Since fix 128454f it is written at first use only: two FIRST verbose
   synthetic exports still race (same class as the XML statics), later ones do not.  Before the fix the
   store was unconditional and no warm-up helped (corpus/c17/synthetic-verbose-shared-memcache.case). *)
Theorem synthetic_warned_first_use_races_refuted :
  exists s, all_valid s = true /\ statics_warm (s_glob s) = true /\
    conflict_locs (map (events_of s) [[OCons 0 (CExportSynth true)]; [OCons 0 (CExportSynth true)]]) <> [] /\
    forallb (loc_eqb (LStChecked SSynthWarned)) (conflict_locs (map (events_of s) [[OCons 0 (CExportSynth true)]; [OCons 0 (CExportSynth true)]])) = true /\
    let s1 := fst (fst (run_op s (OCons 0 (CExportSynth true)))) in
    all_statics_warm (s_glob s1) = true /\
    conflict_locs (map (events_of s1) [[OCons 0 (CExportSynth true)]; [OCons 0 (CExportSynth true)]]) = [].
Proof. exists ex_state. vm_compute. repeat split; try reflexivity. discriminate. Qed.
Print Assumptions synthetic_warned_first_use_races_refuted.

(* control (outside the property, which demands the refresh): readers of an UNREFRESHED topology race
   on the distances cache - the harness uses it to show that ThreadSanitizer sees cache races *)
Theorem unrefreshed_readers_race :
  exists s, all_valid s = false /\
    conflict_locs (map (events_of s) [[OCons 0 CDistGet]; [OCons 0 CDistGet]]) <> [] /\
    conflict_locs (map (events_of (fst (fst (run_op s (OMod 0 MRefresh))))) [[OCons 0 CDistGet]; [OCons 0 CDistGet]]) = [].
Proof.
  exists (fst (fst (run_op ex_state (OMod 0 (MRestrict true [2; 2; 3]))))).
  vm_compute. split; [reflexivity|]. split; [discriminate | reflexivity].
Qed.

(* ---------------------------------------------------------------- *)
(* threads that work on distinct topologies can only meet on the process-wide statics *)
Theorem independent_topologies_disjoint : forall s1 s2 p q,
  (forall o o', In o p -> In o' q -> op_topo o <> op_topo o') ->
  forall a b, In a (events_of s1 p) -> In b (events_of s2 q) -> conflict a b = true ->
  is_static_loc (e_loc a) = true.
Proof. exact EventsProofs.independent_topologies_disjoint. Qed.
Print Assumptions independent_topologies_disjoint.

Definition ex_history (t : nat) : list op :=
  [OInit t; OLoad t ex_cfg; OMod t (MRestrict true [2; 1]); OMod t MInsertMisc; OMod t (MDistAdd 4);
   OMod t (MMaSet 3 true); OCons t CDistGet; OCons t CExportXml; ODestroy t].
Example independent_topologies_nonvacuous :
  (forall o o', In o (ex_history 0) -> In o' (ex_history 1) -> op_topo o <> op_topo o') /\
  length (events_of ex_s0 (ex_history 0)) = 219 /\
  (* cold: the only conflicts are on statics; *)
  forallb is_static_loc (conflict_locs [events_of ex_s0 (ex_history 0); events_of ex_s0 (ex_history 1)]) = true /\
  conflict_locs [events_of ex_s0 (ex_history 0); events_of ex_s0 (ex_history 1)] <> [] /\
  (* warm: none at all *)
  conflict_locs [events_of ex_state (ex_history 1); events_of ex_state (ex_history 2)] = [].
Proof.
  split.
  - intros o o' H H'. simpl in H, H'.
    repeat (destruct H as [H|H]; [subst o|]); try destruct H;
      repeat (destruct H' as [H'|H']; [subst o'|]); try destruct H'; simpl; discriminate.
  - vm_compute. repeat split; try reflexivity. discriminate.
Qed.

(* ---------------------------------------------------------------- *)
(* RESULTS: a thread's results do not depend on what other threads do to other topologies, under every
   schedule of calls - provided no call writes a process-wide static after its first use outside the mutex.
   The process-wide statics of the model: the five `checked` caches and `warned` (static_id: they cache
   constants, results do not depend on them), hwloc_components_users / the component registry (mutex), and
   the XML backend pointers hwloc_libxml_callbacks / hwloc_nolibxml_callbacks (LXmlBackend): the only one that
   is written after first use without the mutex, by the "libxml2 unusable" fallback of every XML entry point
   (errno == ENOSYS).  [backend_stable] excludes exactly the calls that take that fallback; checks/c17.py
   compares the write sites and their guards in the current topology-xml.c with this, and nm's list of
   writable statics with the list above. *)
Theorem independent_results_partial : forall t0 A sched progs sc sa,
  rel A sc sa ->
  (forall o, In o (nth t0 progs []) -> In (op_topo o) A /\ backend_stable o = true) ->
  (forall u o, u <> t0 -> In o (nth u progs []) -> ~ In (op_topo o) A /\ backend_stable o = true) ->
  results_of_thread t0 (snd (run_sched sc progs sched)) =
    firstn (count_occ Nat.eq_dec sched t0) (results_of sa (nth t0 progs [])).
Proof. exact EventsProofs.results_independent_of_other_threads. Qed.
Print Assumptions independent_results_partial.

(* histories with failing loads (malformed document, bad synthetic), parser-demanding documents, modifications *)
Definition cfg_bad_xml : loadcfg := mkCfg false false false [] 0 None true true false false.
Definition cfg_bad_synth : loadcfg := mkCfg false false false [] 0 None false true false false.
Definition cfg_fussy_xml : loadcfg := mkCfg false false false [4] 1 None true false true false.
Definition cfg_enosys_xml : loadcfg := mkCfg false false false [] 0 None true true false true.
Definition hist_failing (t : nat) : list op :=
  [OInit t; OLoad t cfg_bad_xml; OLoad t cfg_bad_synth; OLoad t ex_cfg; OCons t CExportXml; ODestroy t; OInit t; OLoad t cfg_bad_xml; ODestroy t].
Definition hist_fussy (t : nat) : list op :=
  [OInit t; OLoad t cfg_fussy_xml; OMod t (MMaSet 2 true); OCons t CDistGet; OCons t CExportXml; ODestroy t; OInit t; OLoad t cfg_fussy_xml; ODestroy t].
Example independent_results_nonvacuous :
  rel [1] ex_s0 ex_s0 /\
  (forall o, In o (hist_fussy 1) -> In (op_topo o) [1] /\ backend_stable o = true) /\
  (forall o, In o (hist_failing 0) -> ~ In (op_topo o) [1] /\ backend_stable o = true) /\
  results_of ex_s0 (hist_fussy 1) = [[1]; [1]; [1]; [1; 4]; [1]; [1]; [1]; [1]; [1]] /\
  results_of ex_s0 (hist_failing 0) = [[1]; [0]; [0]; [1]; [2]; [1]; [1]; [0]; [1]] /\
  results_of_thread 1 (snd (run_sched ex_s0 [hist_failing 0; hist_fussy 1] [0; 0; 1; 0; 1; 1; 0; 0; 1; 1; 0; 1; 0; 1; 0; 1; 1; 0])) = results_of ex_s0 (hist_fussy 1).
Proof.
  split; [repeat split; intros; reflexivity|].
  split; [intros o H; simpl in H; repeat (destruct H as [H|H]; [subst o; split; [left; reflexivity | reflexivity]|]); destruct H|].
  split; [intros o H; simpl in H; repeat (destruct H as [H|H]; [subst o; split; [simpl; intros [X|[]]; discriminate | reflexivity]|]); destruct H|].
  vm_compute. repeat split; reflexivity.
Qed.

(* without the hypothesis the statement is false: one thread's load that takes the ENOSYS fallback clears the
   process-wide backend pointer, and another thread's load of a parser-demanding document on its own
   topology then fails although it succeeds alone.  With the installed libxml2 the fallback cannot be
   triggered, so this is a statement about the code path, not a reproduced defect; a change that makes the
   fallback reachable (seeded C17c: also on errno == EINVAL, i.e. on any malformed document) turns it into one:
   corpus/c17/failing-xml-load-next-to-fussy-xml-load.case *)
Theorem independent_results_refuted :
  exists progs sched,
    (forall u o, In o (nth u progs []) -> op_topo o = u) /\
    results_of ex_s0 (nth 1 progs []) = [[1]; [1]] /\
    results_of_thread 1 (snd (run_sched ex_s0 progs sched)) = [[1]; [0]] /\
    In LXmlBackend (conflict_locs (map (events_of ex_s0) progs)).
Proof.
  exists [[OInit 0; OLoad 0 cfg_enosys_xml]; [OInit 1; OLoad 1 cfg_fussy_xml]], [0; 1; 0; 1].
  split.
  - intros [|[|u]] o H; simpl in H; try (destruct u; destruct H).
    + destruct H as [H|[H|[]]]; subst o; reflexivity.
    + destruct H as [H|[H|[]]]; subst o; reflexivity.
  - vm_compute. repeat split; try reflexivity. tauto.
Qed.
Print Assumptions independent_results_refuted.

(* ---------------------------------------------------------------- *)
(* hwloc_components_users: under every schedule of init / use / fini critical sections that respects
   "use and fini only while holding a reference", the registry is registered whenever it is read, it is
   written only while no OTHER thread holds a reference, and users always equals the references held *)
Theorem refcount_serialised : forall l r h,
  rinv r h -> rsched_ok h l = true ->
  rsafe r h l /\ rinv (fst (rrun r h l)) (snd (rrun r h l)).
Proof. exact EventsProofs.refcount_serialised. Qed.
Print Assumptions refcount_serialised.

Example refcount_serialised_nonvacuous :
  let l := [(0, RInit); (1, RInit); (0, RUse); (1, RUse); (0, RFini); (2, RInit); (1, RFini); (2, RUse); (2, RFini); (1, RInit); (1, RFini)] in
  rinv (mkR 0 false 0) [] /\ rsched_ok [] l = true /\ fst (rrun (mkR 0 false 0) [] l) = mkR 0 false 4.
Proof. vm_compute. repeat split; reflexivity. Qed.

(* the hypothesis [rsched_ok] is exactly "a thread drops only references it holds".  One unbalanced
   hwloc_components_fini (an error path that releases a reference it never took: seeded C17h,
   corpus/c17/shmem-write-unloaded-next-to-live-topology.case) and the statement fails: the registry is torn
   down under another thread that still holds a reference *)
Theorem unbalanced_fini_breaks_registry :
  exists l, rsched_ok [] l = false /\ ~ rsafe (mkR 0 false 0) [] l.
Proof.
  exists [(0, RInit); (1, RInit); (0, RFini); (0, RFini); (1, RUse)].
  split; [reflexivity|]. intro H. simpl in H.
  destruct H as [_ [_ [_ [_ [_ [_ [_ [_ [H _]]]]]]]]]. specialize (H eq_refl). discriminate.
Qed.

(* every access of the reference count and the registry in the event model is ordered by the mutex protocol *)
Theorem refcount_accesses_protected : forall s o e,
  In e (snd (run_op s o)) -> (e_loc e = LRefcount \/ e_loc e = LRegistry) -> e_prot e = true.
Proof.
  intros s o e Hin Hl. pose proof (EventsProofs.fp_run_op s o) as F.
  unfold fp_all in F. rewrite forallb_forall in F. specialize (F e Hin). unfold fp_ok in F.
  destruct Hl as [Hl|Hl]; rewrite Hl in F; simpl in F; rewrite orb_false_r in F; exact F.
Qed.
Print Assumptions refcount_accesses_protected.
