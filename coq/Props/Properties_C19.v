(* C19 — shared-memory topologies: length suffices, adoption checks, read-only adopted copy.
   Model: Topo/Shmem.v (the dup of Topo/Dup.v under the two allocators of shmem.c). *)
From Coq Require Import List NArith Bool.
From HV Require Import Gen.Tables Topo.Heap Topo.Dup Topo.DupProofs Topo.Shmem Topo.ShmemProofs.
Import ListNotations.
Local Open Scope N_scope.

(* the two allocators of the current shmem.c, evaluated by the translator on 0..64, round up to HWLOC_SHMEM_MALLOC_ALIGN *)
Theorem allocators_use_align : align_table_ok = true.
Proof. exact hw_align_table. Qed.
Print Assumptions allocators_use_align.

(* whatever allocator serves the counting pass (malloc), the accumulated length is the aligned sum of [sizes t]:
   the requests do not depend on the addresses (C12 alloc_sequence_parametric) *)
Theorem counting_pass_total : forall al t (s : rstate al),
  sum_aligned (trace al (snd (assign ksize al t s))) = sum_aligned (trace al s) + sum_aligned (sizes ksize t).
Proof. exact hw_counting_pass. Qed.
Print Assumptions counting_pass_total.

(* for every tree and mapping address: the cursor ends inside the mapping of get_length bytes, every block written lies
   between the header and the end of the mapping, and the blocks follow each other without overlapping *)
Theorem length_suffices : forall t base,
  let s' := snd (write_run t base) in
  cursor_end t base <= base + get_length (sizes ksize t) /\
  chain (base + SHMEM_HEADER_LENGTH) (snd s') (fst s') /\
  (forall n a, In (n, a) (snd s') -> base + SHMEM_HEADER_LENGTH <= a /\ a + n <= base + get_length (sizes ksize t)).
Proof. exact hw_length_suffices. Qed.
Print Assumptions length_suffices.

(* exact counts (no slack): write() uses header_length + the aligned sizes; get_length is the page round-up of exactly
   sizeof(header) + the aligned sizes, the smallest multiple of the page size that holds them, and the two headers agree *)
Theorem write_used_exact : forall t base,
  cursor_end t base - base = SHMEM_HEADER_LENGTH + sum_aligned (sizes ksize t).
Proof. exact hw_write_used_exact. Qed.
Theorem get_length_exact : forall sizes,
  let need := SIZEOF_STRUCT_HWLOC_SHMEM_HEADER + sum_aligned sizes in
  get_length sizes = align_up SHMEM_PAGESIZE need /\
  need <= get_length sizes < need + SHMEM_PAGESIZE /\ get_length sizes mod SHMEM_PAGESIZE = 0 /\
  need = SHMEM_HEADER_LENGTH + sum_aligned sizes.
Proof. exact hw_get_length_exact. Qed.
Print Assumptions get_length_exact.

(* the written image is a function of the topology and of the mapping address only: for any two previous contents of the
   heap the same blocks are laid out at the same addresses with the same content, each block stored entirely (calloc()ed
   memory is zero where nothing is stored, whatever the mapping held), and nothing else changes *)
Theorem image_independent_of_previous_content : forall t base (h h' : heap),
  model_wf t = true ->
  let r := dup_run ksize write_allocator t h (write_start base) in
  let r' := dup_run ksize write_allocator t h' (write_start base) in
  fst (fst r) = fst (fst r') /\ snd r = snd r' /\
  (forall a, In a (addrs (fst (fst r))) -> snd (fst r) a = snd (fst r') a /\ exists b, snd (fst r) a = Some b /\ In (a, b) (nodes (fst (fst r)))) /\
  (forall a, ~ In a (addrs (fst (fst r))) -> snd (fst r) a = h a /\ snd (fst r') a = h' a).
Proof. exact hw_image_independent. Qed.
Print Assumptions image_independent_of_previous_content.

(* the stored copy is self-contained: every block starts inside the mapping (after the header, before the end of the
   get_length bytes) and every pointer held by a block is the address of a block of the copy: nothing in the image points
   to the writer's heap or libhwloc (the harness checks the same on the really adopted topology: "ptrrange") *)
Theorem stored_copy_self_contained : forall t base,
  model_wf t = true ->
  let at1 := fst (write_run t base) in
  (forall a, In a (addrs at1) -> base + SHMEM_HEADER_LENGTH <= a < base + get_length (sizes ksize t)) /\
  (forall a b p, In (a, b) (nodes at1) -> In p (hptrs b) -> In p (addrs at1)).
Proof. exact hw_stored_copy_self_contained. Qed.
Print Assumptions stored_copy_self_contained.

(* the C request order (root object and level arrays first) needs the same number of bytes *)
Theorem length_order_independent : forall s, sum_aligned (c_sizes s) = sum_aligned (sizes ksize (topo_tree s)).
Proof. exact (hw_c_order_same_total align). Qed.
Print Assumptions length_order_independent.

(* adoption with the arguments of the write succeeds; it succeeds ONLY with them; the failures are EINVAL / EBUSY *)
Theorem adopt_accepts : forall addr len,
  adopt_check 0 (write_header addr len) addr len (Some addr) HWLOC_TOPOLOGY_ABI = AdoptOk.
Proof. exact hw_adopt_accepts. Qed.
Theorem adopt_rejects : forall flags hdr addr len res abi,
  (flags <> 0 -> adopt_check flags hdr addr len res abi = AdoptErr EINVAL_) /\
  (flags = 0 -> (h_version hdr <> HWLOC_SHMEM_HEADER_VERSION \/ h_length hdr <> SHMEM_HEADER_LENGTH \/ h_address hdr <> addr \/ h_mmap_length hdr <> len) ->
     adopt_check flags hdr addr len res abi = AdoptErr EINVAL_) /\
  (flags = 0 -> hdr = write_header addr len -> forall a, res = Some a -> a <> addr -> adopt_check flags hdr addr len res abi = AdoptErr EBUSY_) /\
  (flags = 0 -> hdr = write_header addr len -> res = Some addr -> abi <> HWLOC_TOPOLOGY_ABI -> adopt_check flags hdr addr len res abi = AdoptErr EINVAL_) /\
  (adopt_check flags hdr addr len res abi = AdoptOk ->
     flags = 0 /\ hdr = write_header addr len /\ res = Some addr /\ abi = HWLOC_TOPOLOGY_ABI).
Proof. exact hw_adopt_rejects. Qed.
Print Assumptions adopt_rejects.

(* for EVERY address and length: each single-bit flip of the stored header_version, header_length, mmap_address, mmap_length
   and of the stored topology ABI, and the ABI values abi+-1, abi+-0x100, 0x38000, other majors, 0, ~0, is refused with EINVAL
   (the table the harness applies to the file, "rejectsweep") *)
Theorem adopt_rejects_every_bit_flip : forall addr len, corruption_table_ok addr len = true.
Proof. exact hw_corruption_table. Qed.
Print Assumptions adopt_rejects_every_bit_flip.

(* the adopted copy IS the writer's copy: C12's dup_abs_equal / dup_footprint_fresh instantiated with the bump allocator *)
Theorem adopt_equal :
  forall h at0 base, stored h at0 -> (forall x, In x (addrs at0) -> x < base + SHMEM_HEADER_LENGTH) ->
    model_wf (dup_tree (erase at0)) = true ->
    forall at1 h1 s1, dup_run ksize write_allocator (dup_tree (erase at0)) h (write_start base) = (at1, h1, s1) ->
      erase at1 = dup_tree (erase at0) /\ stored h1 at1 /\ stored h1 at0.
Proof. exact hw_adopt_equal. Qed.
Print Assumptions adopt_equal.

(* the entry points that test adopted_shmem_addr: EPERM, nothing written *)
Theorem adopted_modifiers_eperm_identity : forall inc c,
  has_guard c = true -> adopted_call inc c = Refused EPERM_ /\ call_kind c = Modifier.
Proof. exact hw_adopted_modifiers_eperm_identity. Qed.
(* every structure-modifying call that is given the topology is refused (fix 18c90e7 added the memattr / cpukinds / refresh guards) *)
Theorem adopted_modifiers_eperm_partial : forall inc c,
  call_kind c = Modifier -> c <> CObjAddInfo -> adopted_call inc c = Refused EPERM_.
Proof. exact hw_adopted_modifiers_eperm_partial. Qed.
(* REFUTED for hwloc_obj_add_info only: no topology argument, it reallocs the mapped infos array (documented as forbidden) *)
Theorem adopted_modifiers_eperm_refuted : exists c, call_kind c = Modifier /\ adopted_call true c = Fault.
Proof. exact hw_adopted_modifiers_refuted. Qed.

(* full statement since fixes 13a2f04 and e8b5396: no consulting or permitted call writes the read-only mapping *)
Theorem adopted_no_fault : forall inc c,
  call_kind c <> Modifier ->
  adopted_call inc c = Ok \/ (c = CAllow /\ inc = false /\ adopted_call inc c = Refused EINVAL_).
Proof. exact hw_adopted_no_fault. Qed.
Print Assumptions adopted_no_fault.
Theorem allow_works_when_include_disallowed : adopted_call true CAllow = Ok /\ writes true CAllow = Some Private.
Proof. exact hw_allow_works. Qed.

(* non-vacuity: the distances block of Properties_C12 written at 4096 *)
Definition ex_tree : tree :=
  T K_DIST 1 [CV 7; CV 4; CV 2; CV 5; CV 0; CV 0; COwn (T K_STR 4 [CV 6516580]); CNull;
              COwn (T K_U64 2 [CV 0; CV 1]); COwn (T K_DOBJS 2 [CNull; CNull]); COwn (T K_U64 4 [CV 10; CV 20; CV 20; CV 10]); CNull].
Example ex_length :
  sizes ksize ex_tree = [88; 4; 16; 16; 32] /\ get_length (sizes ksize ex_tree) = 4096 /\
  cursor_end ex_tree 4096 = 4096 + 24 + 160 /\
  rev (snd (snd (write_run ex_tree 4096))) = [(88, 4120); (4, 4208); (16, 4216); (16, 4232); (32, 4248)].
Proof. vm_compute. repeat split. Qed.
Example ex_guarded : has_guard CRestrict = true /\ adopted_call true CRestrict = Refused EPERM_ /\ call_kind CMemattrQuery <> Modifier.
Proof. repeat split; discriminate. Qed.
