(* C15 - CPU kinds always partition the registered PUs and are ranked consistently.

   Model: Attr/Cpukinds.v (hwloc/cpukinds.c statement by statement, the kinds
   array with its capacity and the bytes left in unused slots).  A history is
   a list of public operations (hwloc_cpukinds_register with arbitrary
   arguments, the cpukinds part of hwloc_topology_restrict, refresh, dup, XML
   export+import), each with the value of HWLOC_CPUKINDS_RANKING at that time.
   [ghost [] h] is the list of effective registrations of h: the accepted
   register calls, their cpusets intersected with every later restriction.

   Every statement is for ALL states / histories / cpusets (finite or infinite) /
   forced efficiencies / info arrays, unless a hypothesis says otherwise. *)
From Coq Require Import String.
From Coq Require Import List NArith ZArith Bool Sorted Permutation Lia ZifyNat ZifyN.
From HV Require Import Base.BSet Gen.Tables Attr.Cpukinds Attr.CpukindsProofs.
Import ListNotations.
Local Open Scope Z_scope.
Arguments lit s%string_scope.

(* ---- registration ---- *)

(* hwloc_internal_cpukinds_register (flag OVERWRITE_FORCED_EFFICIENCY, as the
   public entry point and the XML importer pass it) preserves the invariant
   [Inv]: every kind is non-empty, included in or disjoint from every
   effective registration, carries exactly the info pairs of the registrations
   covering it without exact duplicates, has the forced efficiency of the last
   registration covering it; every PU is in exactly one kind if registered
   and in none otherwise. *)
Theorem register_inv : forall regs st cs forced infos flags st',
  Inv true regs st ->
  internal_register st cs forced infos flags = IOk st' ->
  (N.land flags OVERWRITE =? 0)%N = false ->
  Inv true (R cs forced (infos_of infos) :: regs) st'.
Proof. exact register_inv_overwrite. Qed.
Print Assumptions register_inv.

(* the same for ANY flags (the OS backends pass 0, where a merge keeps an
   already known forced efficiency): everything except the forced-efficiency
   clause ([Inv false]); [Inv true] implies [Inv false] *)
Theorem register_inv_any_flags : forall regs st cs forced infos flags st',
  Inv false regs st ->
  internal_register st cs forced infos flags = IOk st' ->
  Inv false (R cs forced (infos_of infos) :: regs) st'.
Proof. exact register_inv_any_flags_spec. Qed.
Print Assumptions register_inv_any_flags.
Theorem inv_forced_clause_optional : forall regs st, Inv true regs st -> Inv false regs st.
Proof. exact Inv_weaken. Qed.
Print Assumptions inv_forced_clause_optional.

(* the invariant in plain words: non-empty, pairwise disjoint, union = union of the registrations *)
Theorem register_union : forall regs st, Inv true regs st ->
  (forall k, In k (kinds st) -> bs_is_empty (k_cpuset k) = false) /\
  (forall i j a b, i <> j -> nth_error (kinds st) i = Some a -> nth_error (kinds st) j = Some b ->
                   bs_intersects (k_cpuset a) (k_cpuset b) = false) /\
  (forall p, (exists k, In k (kinds st) /\ mem p (k_cpuset k) = true) <-> registered regs p = true).
Proof. exact (Inv_partition true). Qed.
Print Assumptions register_union.

(* no slot index outside the allocated array (whatever the state, even a
   corrupted one); at most nr+1 kinds are added and 2*nr+1 slots exist; the
   undefined shift 1U<<32 of the capacity computation needs 2^29 kinds *)
Theorem register_in_bounds : forall st cs forced infos flags,
  internal_register st cs forced infos flags <> IFatal F_OOB /\
  (internal_register st cs forced infos flags = IFatal F_UB -> (2 ^ 29 <= N.of_nat (length (kinds st)))%N) /\
  (forall st', internal_register st cs forced infos flags = IOk st' ->
     (length (kinds st) <= length (kinds st') <= 2 * length (kinds st) + 1)%nat /\
     (2 * length (kinds st) + 1 <= nr_allocated st')%nat /\
     (nr_allocated st <= nr_allocated st')%nat).
Proof. exact internal_register_bounds. Qed.
Print Assumptions register_in_bounds.

(* EINVAL exactly for non-zero flags, NULL or empty cpuset; the state is untouched *)
Theorem register_einval : forall env st cs f i fl,
  (fl <> 0%N \/ cs = None \/ cs = Some bs_empty) <-> pub_register env st cs f i fl = Fine st RC_EINVAL.
Proof. exact pub_register_einval. Qed.
Print Assumptions register_einval.

(* ---- restrict ---- *)
Theorem restrict_inv : forall env regs st t,
  Inv true regs st -> Inv true (map (restrict_reg t) regs) (restrict_state env st t).
Proof. exact (restrict_state_inv true). Qed.
Print Assumptions restrict_inv.

(* what hwloc_topology_restrict (any valid flag combination, by cpuset or by nodeset)
   does to the root cpuset that [restrict_state] receives: it only shrinks it *)
Theorem topology_restrict_only_shrinks : forall t set flags t',
  topology_restrict t set flags = Some t' -> bs_subset (t_cpuset t') (t_cpuset t) = true.
Proof. exact topology_restrict_shrinks. Qed.
Print Assumptions topology_restrict_only_shrinks.

(* ---- histories ---- *)

(* no history reaches the stale-slot memory error: the unused slots of the array
   never hold an infos array pointer (they did before fix c027890: restrict left a
   copy of the last kind in the vacated slot; corpus/c15/stale_after_*.case) *)
Theorem history_safe : forall h, run init_state h <> Fatal F_STALE.
Proof. exact history_safe_init. Qed.
Print Assumptions history_safe.

(* every history leaves a state satisfying the invariant w.r.t. its effective registrations *)
Theorem history_inv : forall h st rc,
  run init_state h = Fine st rc -> Inv true (ghost [] h) st.
Proof. exact (history_inv_init true). Qed.
Print Assumptions history_inv.

(* ... and the only way not to end in such a state is the 2^29-kinds shift *)
Theorem history_total : forall h,
  run init_state h = Fatal F_UB \/ exists st rc, run init_state h = Fine st rc /\ Inv true (ghost [] h) st.
Proof. exact (history_total_init true). Qed.
Print Assumptions history_total.

Theorem history_in_bounds : forall h st, run st h <> Fatal F_OOB.
Proof. exact run_no_oob. Qed.
Print Assumptions history_in_bounds.

(* over a universe of n < 2^29 PUs (every registered cpuset inside [0,n)) there are
   never more than n kinds (pigeonhole), so the undefined shift 1U<<32 of the
   capacity computation is out of reach for histories of any length, XML reload
   included: every such history ends in a state satisfying the invariant *)
Theorem history_no_undefined_shift : forall n h,
  (N.of_nat n < 2 ^ 29)%N -> in_universe n h -> run init_state h <> Fatal F_UB.
Proof. exact history_no_ub_universe_init. Qed.
Print Assumptions history_no_undefined_shift.
Theorem history_total_finite_universe : forall n h,
  (N.of_nat n < 2 ^ 29)%N -> in_universe n h ->
  exists st rc, run init_state h = Fine st rc /\ Inv true (ghost [] h) st /\ (length (kinds st) <= n)%nat.
Proof. exact history_total_universe_init. Qed.
Print Assumptions history_total_finite_universe.

(* ---- hwloc_cpukinds_get_by_cpuset ---- *)
(* under the invariant: the index of the kind containing the set; EXDEV iff no
   kind contains it but some kind meets it; ENOENT iff it meets none; never EINVAL for a non-empty set *)
Theorem get_by_cpuset_exact : forall regs st q,
  Inv true regs st -> bs_is_empty q = false ->
  match get_by_cpuset st (Some q) 0%N with
  | G_OK j => exists k, nth_error (kinds st) j = Some k /\ bs_subset q (k_cpuset k) = true
  | G_EXDEV => (forall k, In k (kinds st) -> bs_subset q (k_cpuset k) = false) /\
               (exists k, In k (kinds st) /\ bs_intersects q (k_cpuset k) = true)
  | G_ENOENT => forall k, In k (kinds st) -> bs_intersects q (k_cpuset k) = false
  | G_EINVAL => False
  end.
Proof. exact (get_by_cpuset_spec true). Qed.
Print Assumptions get_by_cpuset_exact.

Theorem get_by_cpuset_einval : forall st q fl,
  (fl <> 0%N \/ q = None \/ q = Some bs_empty) -> get_by_cpuset st q fl = G_EINVAL.
Proof. exact get_by_cpuset_einval_spec. Qed.
Print Assumptions get_by_cpuset_einval.

(* ---- ranking ---- *)
(* after hwloc_internal_cpukinds_rank, for every strategy / environment value:
   efficiency = index for all kinds, or all efficiencies unknown *)
Theorem efficiencies_all_unknown_or_permutation : forall env ks,
  ranked (rank_kinds env ks) \/ unranked (rank_kinds env ks).
Proof. exact rank_kinds_effs. Qed.
Print Assumptions efficiencies_all_unknown_or_permutation.

(* ... and so after every history *)
Theorem history_efficiencies : forall h st rc,
  run init_state h = Fine st rc -> ranked (kinds st) \/ unranked (kinds st).
Proof. exact history_effs_init. Qed.
Print Assumptions history_efficiencies.

(* ranking only permutes the kinds; when efficiencies are known the kinds are
   in strictly increasing order of their ranking values *)
Theorem rank_permutes : forall env ks, Permutation (map core (rank_kinds env ks)) (map core ks).
Proof. exact rank_kinds_core. Qed.
Print Assumptions rank_permutes.
Theorem ranked_consistently : forall env ks, (2 <= length ks)%nat -> ranked (rank_kinds env ks) ->
  StronglySorted Z.lt (map k_rank (rank_kinds env ks)).
Proof. exact rank_kinds_sorted. Qed.
Print Assumptions ranked_consistently.

(* forced efficiencies all known and distinct (as 64-bit ranking values), default or
   forced_efficiency strategy: efficiency = index and the order follows the forced efficiencies *)
Theorem forced_ranking_respected : forall env ks,
  heur_of_env env = H_DEFAULT \/ heur_of_env env = H_FORCED ->
  (2 <= length ks)%nat ->
  Forall (fun k => k_forced k <> UNKNOWN) ks ->
  NoDup (map (fun k => u64 (k_forced k)) ks) ->
  ranked (rank_kinds env ks) /\
  StronglySorted Z.lt (map (fun k => u64 (k_forced k)) (rank_kinds env ks)).
Proof. exact rank_kinds_forced. Qed.
Print Assumptions forced_ranking_respected.

(* ---- XML export + import ---- *)
Theorem xml_reload_same_kinds : forall env regs st st' rc,
  Inv true regs st -> xml_reload env st = Fine st' rc ->
  kinds st' = rank_kinds env (map fresh (kinds st)) /\ Inv true regs st'.
Proof. exact (xml_reload_spec true). Qed.
Print Assumptions xml_reload_same_kinds.

(* ---- topologies adopted from shared memory (read-only) ---- *)
Theorem adopted_read_only : forall env st o,
  mutating o = true -> guarded_step true env st o = (Fine st RC_EPERM, true).
Proof. exact guarded_step_adopted. Qed.
Print Assumptions adopted_read_only.
Theorem adopt_inv : forall regs st, Inv true regs st -> Inv true regs (adopt_state st).
Proof. exact (adopt_state_inv true). Qed.
Print Assumptions adopt_inv.

(* ---- non-vacuity ---- *)
(* a history with a split (INTERSECTS), a merge (CONTAINS), an inclusion, a
   restrict that removes a kind, a dup and a registration after it: it runs
   without fatal outcome, so history_inv / history_efficiencies apply to a
   state with 6 kinds *)
(* the two histories that reached the stale slot before the fix *)
Definition former_stale_witness : list (option str * op) :=
  [ (None, OpRegister (Some (bs_of_N 1)) (-1) (Some [(lit "a", lit "1")]) 0%N);
    (None, OpRegister (Some (bs_of_N 6)) (-1) (Some [(lit "b", lit "2")]) 0%N);
    (None, OpRestrict (bs_of_N 14));
    (None, OpRegister (Some (bs_of_N 8)) (-1) (Some [(lit "c", lit "3")]) 0%N) ].
Definition former_stale_witness_dup : list (option str * op) :=
  [ (None, OpRegister (Some (bs_of_N 1)) (-1) None 0%N);
    (None, OpDup);
    (None, OpRestrict (bs_of_N 14));
    (None, OpRegister (Some (bs_of_N 4)) (-1) None 0%N) ].
Example former_stale_witnesses_run :
  (exists st, run init_state former_stale_witness = Fine st RC_OK /\
              map k_infos (kinds st) = [[(lit "b", lit "2")]; [(lit "c", lit "3")]]) /\
  (exists st, run init_state former_stale_witness_dup = Fine st RC_OK /\ length (kinds st) = 1%nat).
Proof. split; eexists; (split; [vm_compute; reflexivity|reflexivity]). Qed.

Definition example_history : list (option str * op) :=
  [ (None, OpRegister (Some (bs_of_N 3)) 5 (Some [(lit "CoreType", lit "IntelAtom")]) 0%N);
    (None, OpRegister (Some (bs_of_N 6)) 2 (Some [(lit "x", lit "1"); (lit "x", lit "1")]) 0%N);   (* INTERSECTS *)
    (None, OpRegister (Some (bs_of_N 12)) 8 None 0%N);                                             (* CONTAINS + remainder *)
    (None, OpRegister (Some (bs_of_N 8)) 1 (Some [(lit "y", lit "2")]) 0%N);                       (* EQUAL *)
    (None, OpRegister (Some (bs_of_N 240)) 6 None 0%N);                                            (* DIFFERENT *)
    (None, OpRegister (Some (bs_of_N 32)) 3 None 0%N);                                             (* INCLUDED *)
    (Some (lit "forced_efficiency"), OpRestrict (bs_of_N 254));                                   (* removes kind {0} *)
    (None, OpDup);
    (None, OpRegister (Some (BS 255 true)) 7 None 0%N);                                            (* infinite cpuset *)
    (None, OpRegister None 0 None 0%N);                                                            (* EINVAL *)
    (None, OpXml) ].
Example example_history_runs :
  exists st, run init_state example_history = Fine st RC_OK /\ length (kinds st) = 6%nat /\
             in_universe 8 (firstn 8 example_history) /\
             map k_eff (kinds st) = [0; 1; 2; 3; 4; 5] /\ map k_forced (kinds st) = [1; 2; 3; 6; 7; 8].
Proof.
  eexists. split; [vm_compute; reflexivity|]. split; [reflexivity|].
  split; [|split; reflexivity]. repeat constructor; discriminate.
Qed.

(* hypotheses of forced_ranking_respected are met by a concrete list, and the conclusion is not trivial *)
Example example_forced :
  let ks := [K (bs_of_N 1) 0 7 0 [] false; K (bs_of_N 2) 0 3 0 [] false; K (bs_of_N 4) 0 5 0 [] false] in
  heur_of_env None = H_DEFAULT /\ Forall (fun k => k_forced k <> UNKNOWN) ks /\
  NoDup (map (fun k => u64 (k_forced k)) ks) /\
  map k_forced (rank_kinds None ks) = [3; 5; 7] /\ map k_eff (rank_kinds None ks) = [0; 1; 2].
Proof.
  simpl. split; [reflexivity|]. split; [repeat constructor; discriminate|].
  split; [|split; vm_compute; reflexivity].
  vm_compute. repeat constructor; simpl; intuition discriminate.
Qed.

(* ranking by info: core type and frequency; duplicate ranking values => all unknown *)
Example example_info_ranking :
  let a := K (bs_of_N 1) 0 (-1) 0 [(lit "CoreType", lit "IntelCore"); (lit "FrequencyMaxMHz", lit "3000")] true in
  let b := K (bs_of_N 2) 0 (-1) 0 [(lit "CoreType", lit "IntelAtom"); (lit "FrequencyMaxMHz", lit "3000")] true in
  map k_cpuset (rank_kinds None [a; b]) = [bs_of_N 2; bs_of_N 1] /\
  map k_eff (rank_kinds None [a; b]) = [0; 1] /\
  map k_eff (rank_kinds (Some (lit "frequency")) [a; b]) = [-1; -1] /\
  map k_eff (rank_kinds (Some (lit "none")) [a; b]) = [-1; -1].
Proof. vm_compute. repeat split; reflexivity. Qed.

(* get_by_cpuset: the three outcomes occur *)
Example example_get_by_cpuset :
  let st := St [K (bs_of_N 3) 0 0 0 [] false; K (bs_of_N 12) 1 0 0 [] false] [] in
  get_by_cpuset st (Some (bs_of_N 8)) 0%N = G_OK 1%nat /\
  get_by_cpuset st (Some (bs_of_N 6)) 0%N = G_EXDEV /\
  get_by_cpuset st (Some (bs_of_N 28)) 0%N = G_EXDEV /\
  get_by_cpuset st (Some (bs_of_N 48)) 0%N = G_ENOENT /\
  get_by_cpuset st (Some bs_empty) 0%N = G_EINVAL.
Proof. vm_compute. repeat split; reflexivity. Qed.
