(* C15 - property theorems (placeholder while the proofs are being written) *)
From Coq Require Import List NArith ZArith Bool.
From HV Require Import Base.BSet Attr.Cpukinds.
Import ListNotations.
