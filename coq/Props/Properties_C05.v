(* C05: XML export followed by import reproduces the topology (attribute-level round trips and the
   export-side model; the tokenizer-level round trip needs Text/XmlLex.v of C06, see xml_roundtrip_partial). *)
From Coq Require Import String NArith ZArith List Bool.
From HV Require Import Base.Bytes Gen.Tables Text.Base64 Text.Base64Proofs Text.XmlEscape Text.XmlEscapeProofs Text.XmlExport Text.XmlExportProofs.
Import ListNotations.
Local Open Scope N_scope.

(* base64: decoding what hwloc_encode_to_base64 produced gives the bytes back, for every byte string (every length
   mod 3), as soon as the target has room for one byte more than the data (the importer allocates length+1) *)
Theorem b64_decode_encode : forall bytes T,
  Forall (fun b => b < 256) bytes -> N.of_nat (length bytes) < T -> decode (encode bytes) T = Some bytes.
Proof. exact b64_decode_encode_l. Qed.
Print Assumptions b64_decode_encode.
Example b64_decode_encode_nonvacuous :
  Forall (fun b => b < 256) [0; 255; 16; 0] /\ N.of_nat (length [0; 255; 16; 0]) < 5 /\
  encode [0; 255; 16; 0] = [65; 80; 56; 81; 65; 65; 61; 61] /\ decode (encode [0; 255; 16; 0]) 5 = Some [0; 255; 16; 0].
Proof. repeat split; try (repeat constructor; reflexivity); vm_compute; reflexivity. Qed.

(* BASE64_ENCODED_LENGTH *)
Theorem b64_encoded_length : forall bytes, N.of_nat (length (encode bytes)) = encoded_length (N.of_nat (length bytes)).
Proof. exact b64_encoded_length_l. Qed.
Print Assumptions b64_encoded_length.

(* the encoded text needs no XML escaping and contains no NUL, blank, '<', '>', '&' or quote *)
Theorem b64_output_plain : forall bytes, Forall (fun b => b < 256) bytes -> forallb content_plain (encode bytes) = true.
Proof. exact encode_plain. Qed.
Print Assumptions b64_output_plain.

(* attribute values: the importer's unescape loop inverts the exporter's escape, for every value without NUL,
   whatever follows the closing quote *)
Theorem unescape_escape : forall s rest, Forall (fun b => b <> 0) s ->
  unescape (escaped_value s ++ 34 :: rest) = UOk s rest.
Proof. exact unescape_escape_l. Qed.
Print Assumptions unescape_escape.
Example unescape_escape_nonvacuous :
  Forall (fun b => b <> 0) [97; 60; 38; 34; 10; 255] /\
  escaped_value [97; 60; 38; 34; 10; 255] = [97] ++ lit "&lt;&amp;&quot;&#10;" ++ [255].
Proof. split; [repeat constructor; discriminate|vm_compute; reflexivity]. Qed.

Theorem escape_output_safe : forall s, forallb (fun x => negb (raw_unsafe x)) (escaped_value s) = true.
Proof. exact escape_output_safe_l. Qed.
Print Assumptions escape_output_safe.

(* malloc(fulllen*6+1) holds the escaped string and its NUL *)
Theorem escape_fits : forall s e, escape_string s = Some e -> (length e + 1 <= length s * 6 + 1)%nat.
Proof. exact escape_fits_l. Qed.
Print Assumptions escape_fits.

(* DESIGN section 10 #15: what hwloc__xml_export_safestrdup does to names, subtypes and infos *)
Theorem export_filters_invalid : forall s,
  xml_safe_string (safestrdup s) = true /\ (xml_safe_string s = true -> safestrdup s = s) /\
  (safestrdup s <> s <-> xml_safe_string s = false).
Proof. intros s. split; [apply safestrdup_safe|]. split; [apply safestrdup_id|apply safestrdup_loses]. Qed.
Print Assumptions export_filters_invalid.

(* ------------------------------------------------------------------------------------------------
   Attribute lists.  What new_prop prints for any list of attributes (names over [a-z_], values
   without NUL) is read back by the import loop "while (next_attr(...) >= 0)" as the same list, in
   order, then the loop stops at the NUL that find_child stored over the closing bracket.

   xml_roundtrip_partial: this is the attribute-level part of  import (export t) ~ t.  Missing for
   the full statement: (1) the element level (find_child / close_tag / close_child of the nolibxml
   tokenizer, owned by C06: coq/Text/XmlLex.v does not exist yet), (2) value-level parsers:
   strtoul/strtoull of the decimal renderings (Base/Strto) and hwloc_bitmap_sscanf of the set
   renderings (C04: Properties_C04.roundtrip_partial, bounded), (3) the object-insertion logic of
   hwloc__xml_import_object.  Those clauses are decided by differential execution on the real
   library (checks/c05.py): dump equality original vs reloaded over the whole backend matrix. *)
Theorem xml_roundtrip_partial : forall attrs fuel, Forall attr_ok attrs -> (length attrs < fuel)%nat ->
  parse_attrs fuel (flat_map print_attr attrs ++ [0]) = attrs.
Proof. exact attrs_roundtrip_l. Qed.
Print Assumptions xml_roundtrip_partial.
Example xml_roundtrip_nonvacuous :
  Forall attr_ok [(lit "type", lit "PU"); (lit "os_index", lit "3"); (lit "name", [97; 60; 34; 38; 10; 200])] /\
  flat_map print_attr [(lit "type", lit "PU"); (lit "name", [97; 60; 34; 38; 10; 200])] =
    lit " type=""PU"" name=""a&lt;&quot;&amp;&#10;" ++ [200; 34].
Proof.
  split; [|vm_compute; reflexivity].
  repeat constructor; cbn [fst snd]; try reflexivity; discriminate.
Qed.

(* info pairs: any two byte strings, exported through the filter, come back as the filtered pair *)
Theorem info_roundtrip : forall i,
  match info_node i with
  | XNode _ attrs _ => parse_attrs 3 (flat_map print_attr attrs ++ [0]) = [(lit "name", safestrdup (fst i)); (lit "value", safestrdup (snd i))]
  end.
Proof. exact info_attrs_roundtrip_l. Qed.
Print Assumptions info_roundtrip.

(* userdata, base64 path: for every byte string (embedded NUL included) the nolibxml importer finds content of
   exactly BASE64_ENCODED_LENGTH(length) bytes and decodes it, into its length+1 buffer, to the exported bytes *)
Theorem userdata_base64_roundtrip : forall bytes tail,
  Forall (fun b => b < 256) bytes ->
  get_content (until_nul (encode bytes) ++ lit "</userdata>" ++ tail) (encoded_length (N.of_nat (length bytes))) = Some (encode bytes) /\
  decode (encode bytes) (N.of_nat (length bytes) + 1) = Some bytes.
Proof. intros bytes tail H. exact (userdata_base64_roundtrip_l bytes tail H). Qed.
Print Assumptions userdata_base64_roundtrip.
Example userdata_base64_nonvacuous : Forall (fun b => b < 256) [0; 1; 0; 255; 60].
Proof. repeat constructor. Qed.

(* userdata, plain path: hwloc_export_obj_userdata accepts every HWLOC_XML_CHAR_VALID buffer, the nolibxml backend
   writes it unescaped and reads up to the next '<' without unescaping: false in general, true without '<' *)
Theorem userdata_plain_markup_refuted :
  exists c, check_buffer c = true /\
            userdata_node {| ud_b64 := false; ud_name := None; ud_bytes := c |} <> None /\
            forall tail, get_content (until_nul c ++ lit "</userdata>" ++ tail) (N.of_nat (length c)) = None.
Proof. exact userdata_plain_markup_refuted_l. Qed.
Print Assumptions userdata_plain_markup_refuted.
Theorem userdata_plain_roundtrip_partial : forall c tail,
  check_buffer c = true -> existsb (N.eqb 60) c = false ->
  get_content (until_nul c ++ lit "</userdata>" ++ tail) (N.of_nat (length c)) = Some c.
Proof. exact userdata_plain_roundtrip_l. Qed.
Print Assumptions userdata_plain_roundtrip_partial.
Example userdata_plain_nonvacuous : check_buffer (lit "a&b> c") = true /\ existsb (N.eqb 60) (lit "a&b> c") = false.
Proof. split; reflexivity. Qed.

(* the export itself.  hwloc___xml_v2export_distances prints up to ten entries per line into a stack buffer with sprintf:
   char _tmp[255] in EXPORT_ARRAY ("%llu "), and in EXPORT_TYPE_GPINDEX_ARRAY ("Type:gp_index ") 255 bytes until /repo
   commit 3181493, (32+1+20+1)*10+1 since.  [export_bytes] is None when a line overruns its buffer.
   export_total: with the committed sizes the export of EVERY topology whose distances hold 64-bit values / indexes and
   valid object types is defined (no overrun), v3 and v2, with or without userdata callback. *)
Theorem export_total : forall v2 ud T, Forall dist_wf (t_distances T) -> export_bytes v2 ud T <> None.
Proof. exact export_total_l. Qed.
Print Assumptions export_total.
Example export_total_nonvacuous : Forall dist_wf (t_distances overflow_topo) /\ t_distances overflow_topo <> [].
Proof.
  split; [|discriminate]. repeat constructor; cbn [fst snd]; unfold u64, Tables.HWLOC_OBJ_TYPE_MAX; try reflexivity.
Qed.

(* for any buffer size: defined exactly when every distances line fits *)
Theorem export_defined_iff : forall gpbuf v2 ud T,
  export_bytes_gen v2 ud T gpbuf <> None <-> forallb (dist_fits gpbuf) (t_distances T) = true.
Proof. exact export_defined_iff_l. Qed.
Print Assumptions export_defined_iff.

(* regression for /repo commit 3181493: with the 255-byte buffer the export of a loaded topology was not total (twenty
   objects with 20-digit gp_index, one heterogeneous matrix: corpus/c05/hetero-distances-large-gp_index, replayed on the C
   code as an ASan stack-buffer-overflow); the committed code exports the same topology *)
Theorem export_overflow_before_fix : exists T, Forall dist_wf (t_distances T) /\ export_bytes_gen false false T GPINDEX_BUF_OLD = None.
Proof.
  exists overflow_topo. split; [|exact export_overflow_before_fix_l].
  repeat constructor; cbn [fst snd]; unfold u64, Tables.HWLOC_OBJ_TYPE_MAX; reflexivity.
Qed.
Print Assumptions export_overflow_before_fix.
Theorem export_overflow_fixed : export_bytes false false overflow_topo <> None.
Proof. exact export_overflow_fixed_l. Qed.
Print Assumptions export_overflow_fixed.
