(* C05: XML export followed by import reproduces the topology (attribute-level round trips and the
   export-side model; the tokenizer-level round trip needs Text/XmlLex.v of C06, see xml_roundtrip_partial). *)
From Coq Require Import String NArith ZArith List Bool.
From HV Require Import Base.Bytes Text.Base64 Text.Base64Proofs Text.XmlEscape Text.XmlEscapeProofs Text.XmlExport.
Import ListNotations.
Local Open Scope N_scope.

(* base64: decoding what hwloc_encode_to_base64 produced gives the bytes back, for every byte string (every length
   mod 3), as soon as the target has room for one byte more than the data (the importer allocates length+1) *)
Theorem b64_decode_encode : forall bytes T,
  Forall (fun b => b < 256) bytes -> N.of_nat (length bytes) < T -> decode (encode bytes) T = Some bytes.
Proof. exact b64_decode_encode_l. Qed.
Print Assumptions b64_decode_encode.
Example b64_decode_encode_nonvacuous :
  Forall (fun b => b < 256) [0; 255; 16; 0] /\ N.of_nat (length [0; 255; 16; 0]) < 5 /\
  encode [0; 255; 16; 0] = [65; 80; 56; 81; 65; 65; 61; 61] /\ decode (encode [0; 255; 16; 0]) 5 = Some [0; 255; 16; 0].
Proof. repeat split; try (repeat constructor; reflexivity); vm_compute; reflexivity. Qed.

(* BASE64_ENCODED_LENGTH *)
Theorem b64_encoded_length : forall bytes, N.of_nat (length (encode bytes)) = encoded_length (N.of_nat (length bytes)).
Proof. exact b64_encoded_length_l. Qed.
Print Assumptions b64_encoded_length.

(* the encoded text needs no XML escaping and contains no NUL, blank, '<', '>', '&' or quote *)
Theorem b64_output_plain : forall bytes, Forall (fun b => b < 256) bytes -> forallb content_plain (encode bytes) = true.
Proof. exact encode_plain. Qed.
Print Assumptions b64_output_plain.

(* attribute values: the importer's unescape loop inverts the exporter's escape, for every value without NUL,
   whatever follows the closing quote *)
Theorem unescape_escape : forall s rest, Forall (fun b => b <> 0) s ->
  unescape (escaped_value s ++ 34 :: rest) = UOk s rest.
Proof. exact unescape_escape_l. Qed.
Print Assumptions unescape_escape.
Example unescape_escape_nonvacuous :
  Forall (fun b => b <> 0) [97; 60; 38; 34; 10; 255] /\
  escaped_value [97; 60; 38; 34; 10; 255] = [97] ++ lit "&lt;&amp;&quot;&#10;" ++ [255].
Proof. split; [repeat constructor; discriminate|vm_compute; reflexivity]. Qed.

Theorem escape_output_safe : forall s, forallb (fun x => negb (raw_unsafe x)) (escaped_value s) = true.
Proof. exact escape_output_safe_l. Qed.
Print Assumptions escape_output_safe.

(* malloc(fulllen*6+1) holds the escaped string and its NUL *)
Theorem escape_fits : forall s e, escape_string s = Some e -> (length e + 1 <= length s * 6 + 1)%nat.
Proof. exact escape_fits_l. Qed.
Print Assumptions escape_fits.

(* DESIGN section 10 #15: what hwloc__xml_export_safestrdup does to names, subtypes and infos *)
Theorem export_filters_invalid : forall s,
  xml_safe_string (safestrdup s) = true /\ (xml_safe_string s = true -> safestrdup s = s) /\
  (safestrdup s <> s <-> xml_safe_string s = false).
Proof. intros s. split; [apply safestrdup_safe|]. split; [apply safestrdup_id|apply safestrdup_loses]. Qed.
Print Assumptions export_filters_invalid.
