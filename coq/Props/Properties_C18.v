(* C18 - property theorems only (DESIGN.md 6.C18).
   Model: Text/LinuxParse.v (hwloc__read_path_as_cpumask / _as_cpulist of
   hwloc/topology-linux.c over checked byte strings, the kernel printers they
   invert, the disallowed-view checker).
   Proofs: Text/LinuxParseProofs.v, Text/LinuxParseListProofs.v.

   The Linux/x86 backends themselves are not modelled: for them the property is
   decided per run by checks/c18.py with the verified checkers (wf_check of C01,
   disallowed_check below) and dump equalities on the real code's outputs.
   "pipeline_deterministic" is a statement about a Gallina function and
   therefore immediate; it is not claimed as a theorem: determinism of the C
   pipeline is what the repeated loads of the check test. *)
From Coq Require Import List NArith ZArith Bool String.
From HV Require Import Base.BSet Base.Bytes Base.Strto Gen.Tables Topo.Dump
  Text.LinuxParse Text.LinuxParseProofs Text.LinuxParseListProofs.
Import ListNotations.
Local Open Scope N_scope.

(* cpumask: for EVERY finite set f and every chunk count n >= 1 able to hold it,
   the parser returns exactly f on the text the kernel prints ("%*pb\n":
   n comma-separated 32-bit hex words, most significant first, leading zero
   words included).  Independent of the nr_maps reallocation logic. *)
Theorem cpumask_parse_exact : forall (n : nat) (f : N),
  (1 <= n)%nat -> f < TWO32 ^ N.of_nat n ->
  cpumask_parse (print_cpumask n f) = Parsed (bs_of_N f).
Proof. exact cpumask_parse_print. Qed.
Print Assumptions cpumask_parse_exact.

Example cpumask_parse_exact_nonvacuous :
  (1 <= 3)%nat /\ 18446744082299486463 < TWO32 ^ N.of_nat 3 /\
  print_cpumask 3 18446744082299486463 = bytes_of_string "00000001,00000002,000000ff" ++ [NL].
Proof. repeat split; try apply PeanoNat.Nat.leb_le; vm_compute; reflexivity. Qed.

(* cpulist: parse o print = id is FALSE at the empty set: the kernel prints it
   "\n", which is read as {0} (replayed on the real code by checks/c18.py,
   known finding cpulist-empty-set). *)
Theorem cpulist_parse_exact_refuted : exists f, cpulist_parse (print_cpulist f) <> Parsed (bs_of_N f).
Proof.
  exists 0. destruct cpulist_empty_witness as [H1 H2]. rewrite H1. intros E. apply H2. now injection E.
Qed.
Print Assumptions cpulist_parse_exact_refuted.

(* ... and holds for EVERY non-empty finite set whose members are below INT_MAX
   (the hypothesis excluding exactly the refuted class and the int range of
   the C variables): text "a-b,c,...\n" of maximal runs (%*pbl). *)
Theorem cpulist_parse_exact_partial : forall f : N,
  f <> 0 -> N.log2 f < 2147483647 ->
  cpulist_parse (print_cpulist f) = Parsed (bs_of_N f).
Proof. exact cpulist_parse_print. Qed.
Print Assumptions cpulist_parse_exact_partial.

Example cpulist_parse_exact_nonvacuous :
  3343 <> 0 /\ N.log2 3343 < 2147483647 /\
  print_cpulist 3343 = bytes_of_string "0-3,8,10-11" ++ [NL].
Proof. repeat split; try discriminate; vm_compute; reflexivity. Qed.

(* Arbitrary file contents (any bytes, embedded NULs included): both parsers
   terminate (the fuel is never exhausted) and never read outside the block
   content ++ [NUL]; the cpumask parser always yields a set, the cpulist parser
   a set or the signed-overflow trap. *)
Theorem parse_total : forall content,
  (exists s, cpumask_parse content = Parsed s) /\
  (cpulist_parse content = SignedOverflow \/ exists s, cpulist_parse content = Parsed s).
Proof. intros c. split; [apply cpumask_parse_total|apply cpulist_parse_total]. Qed.
Print Assumptions parse_total.

(* "never undefined behaviour" is false for the cpulist parser: a value that is
   INT_MAX as an int makes prevlast+1 overflow ("2147483647\n"); replayed on
   the real code under UBSan (known finding cpulist-int-overflow). *)
Theorem cpulist_no_overflow_refuted : exists c, cpulist_parse c = SignedOverflow.
Proof. eexists. exact cpulist_overflow_witness. Qed.
Print Assumptions cpulist_no_overflow_refuted.

(* The executable disallowed-view relation decides its Prop reading: every PU
   and NUMA node (by os_index) of the default dump is in the INCLUDE_DISALLOWED
   dump, whose allowed sets are the default dump's root sets. *)
Theorem disallowed_view_checker : forall dflt incl,
  disallowed_check dflt incl = [] <-> disallowed_view dflt incl.
Proof. exact disallowed_check_correct. Qed.
Print Assumptions disallowed_view_checker.
