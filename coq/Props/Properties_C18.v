(* C18 - property theorems only (DESIGN.md 6.C18).
   Model: Text/LinuxParse.v (hwloc__read_path_as_cpumask / _as_cpulist of
   hwloc/topology-linux.c over checked byte strings, the kernel printers they
   invert, the disallowed-view checker).  Proofs: Text/LinuxParseProofs.v.
   The Linux/x86 backends themselves are not modelled: for them the property is
   decided per run by checks/c18.py with the verified checkers on the real
   code's outputs.  pipeline_deterministic is a statement about a Gallina
   function and therefore immediate; it is not claimed as a theorem: the
   determinism of the C pipeline is what the repeated loads of the check test. *)
From Coq Require Import List NArith ZArith Bool String.
From HV Require Import Base.BSet Base.Bytes Base.Strto Gen.Tables Topo.Dump Text.LinuxParse Text.LinuxParseProofs.
Import ListNotations.
Local Open Scope N_scope.

(* "never undefined behaviour" is false for the cpulist parser: a value that is
   INT_MAX as an int makes prevlast+1 overflow ("2147483647\n"); replayed on
   the real code under UBSan by checks/c18.py (known finding cpulist-int-overflow). *)
Theorem cpulist_no_overflow_refuted : exists c, cpulist_parse c = SignedOverflow.
Proof. eexists. exact cpulist_overflow_witness. Qed.
Print Assumptions cpulist_no_overflow_refuted.

(* parse o print = id is false at the empty set: the kernel prints it "\n",
   which is read as {0} (known finding cpulist-empty-set). *)
Theorem cpulist_parse_exact_refuted : exists f, cpulist_parse (print_cpulist f) <> Parsed (bs_of_N f).
Proof.
  exists 0. destruct cpulist_empty_witness as [H1 H2]. rewrite H1. intros E. apply H2. now injection E.
Qed.
Print Assumptions cpulist_parse_exact_refuted.

(* The executable disallowed-view relation decides its Prop reading: every PU
   and NUMA node (by os_index) of the default dump is in the INCLUDE_DISALLOWED
   dump, whose allowed sets are the default dump's root sets. *)
Theorem disallowed_view_checker : forall dflt incl,
  disallowed_check dflt incl = [] <-> disallowed_view dflt incl.
Proof. exact disallowed_check_correct. Qed.
Print Assumptions disallowed_view_checker.
