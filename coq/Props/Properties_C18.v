(* C18 - property theorems only (DESIGN.md 6.C18).
   Model: Text/LinuxParse.v (hwloc__read_path_as_cpumask / _as_cpulist of
   hwloc/topology-linux.c over checked byte strings, the kernel printers they
   invert, the disallowed-view checker).
   Proofs: Text/LinuxParseProofs.v, Text/LinuxParseListProofs.v.

   The Linux/x86 backends themselves are not modelled: for them the property is
   decided per run by checks/c18.py with the verified checkers (wf_check of C01,
   disallowed_check below) and dump equalities on the real code's outputs.
   "pipeline_deterministic" is a statement about a Gallina function and
   therefore immediate; it is not claimed as a theorem: determinism of the C
   pipeline is what the repeated loads of the check test. *)
From Coq Require Import List NArith ZArith Bool String.
From HV Require Import Base.BSet Base.Bytes Base.Strto Gen.Tables Topo.Dump
  Text.LinuxParse Text.LinuxParseProofs Text.LinuxParseListProofs Text.LinuxNode Text.LinuxNodeProofs Text.LinuxNodeDistinct.
Import ListNotations.
Local Open Scope N_scope.

(* cpumask: for EVERY finite set f and every chunk count n >= 1 able to hold it,
   the parser returns exactly f on the text the kernel prints ("%*pb\n":
   n comma-separated 32-bit hex words, most significant first, leading zero
   words included).  Independent of the nr_maps reallocation logic. *)
Theorem cpumask_parse_exact : forall (n : nat) (f : N),
  (1 <= n)%nat -> f < TWO32 ^ N.of_nat n ->
  cpumask_parse (print_cpumask n f) = Parsed (bs_of_N f).
Proof. exact cpumask_parse_print. Qed.
Print Assumptions cpumask_parse_exact.

Example cpumask_parse_exact_nonvacuous :
  (1 <= 3)%nat /\ 18446744082299486463 < TWO32 ^ N.of_nat 3 /\
  print_cpumask 3 18446744082299486463 = bytes_of_string "00000001,00000002,000000ff" ++ [NL].
Proof. repeat split; try apply PeanoNat.Nat.leb_le; vm_compute; reflexivity. Qed.

(* cpulist: parse o print = id is FALSE at the empty set: the kernel prints it
   "\n", which is read as {0} (replayed on the real code by checks/c18.py,
   known finding cpulist-empty-set). *)
Theorem cpulist_parse_exact_refuted : exists f, cpulist_parse (print_cpulist f) <> Parsed (bs_of_N f).
Proof.
  exists 0. destruct cpulist_empty_witness as [H1 H2]. rewrite H1. intros E. apply H2. now injection E.
Qed.
Print Assumptions cpulist_parse_exact_refuted.

(* ... and holds for EVERY non-empty finite set whose members are below INT_MAX
   (the hypothesis excluding exactly the refuted class and the int range of
   the C variables): text "a-b,c,...\n" of maximal runs (%*pbl). *)
Theorem cpulist_parse_exact_partial : forall f : N,
  f <> 0 -> N.log2 f < 2147483647 ->
  cpulist_parse (print_cpulist f) = Parsed (bs_of_N f).
Proof. exact cpulist_parse_print. Qed.
Print Assumptions cpulist_parse_exact_partial.

Example cpulist_parse_exact_nonvacuous :
  3343 <> 0 /\ N.log2 3343 < 2147483647 /\
  print_cpulist 3343 = bytes_of_string "0-3,8,10-11" ++ [NL].
Proof. repeat split; try discriminate; vm_compute; reflexivity. Qed.

(* Arbitrary file contents (any bytes, embedded NULs included): both parsers
   terminate (the fuel is never exhausted) and never read outside the block
   content ++ [NUL]; the cpumask parser always yields a set, the cpulist parser
   a set or the signed-overflow trap. *)
Theorem parse_total : forall content,
  (exists s, cpumask_parse content = Parsed s) /\
  (cpulist_parse content = SignedOverflow \/ exists s, cpulist_parse content = Parsed s).
Proof. intros c. split; [apply cpumask_parse_total|apply cpulist_parse_total]. Qed.
Print Assumptions parse_total.

(* "never undefined behaviour" is false for the cpulist parser: a value that is
   INT_MAX as an int makes prevlast+1 overflow ("2147483647\n"); replayed on
   the real code under UBSan (known finding cpulist-int-overflow). *)
Theorem cpulist_no_overflow_refuted : exists c, cpulist_parse c = SignedOverflow.
Proof. eexists. exact cpulist_overflow_witness. Qed.
Print Assumptions cpulist_no_overflow_refuted.

(* The executable disallowed-view relation decides its Prop reading: every PU
   and NUMA node (by os_index) of the default dump is in the INCLUDE_DISALLOWED
   dump, whose allowed sets are the default dump's root sets. *)
Theorem disallowed_view_checker : forall dflt incl,
  disallowed_check dflt incl = [] <-> disallowed_view dflt incl.
Proof. exact disallowed_check_correct. Qed.
Print Assumptions disallowed_view_checker.


(* ------------------------------------------------------------------------------------------------------------
   The memory side of the Linux backend: Text/LinuxNode.v models look_sysfsnode (list_sysfsnode, cpumaps and the
   overlap rule, distances, HMAT initiators, the CPU-less fix-up, memory-side caches) as a function of the
   contents of the files and directories it reads, composed with the parser models above.  It is tied request
   by request to the real backend on every traced load (checks/c18.py).  The theorems hold for EVERY view: any
   file contents, any directory listing, any configuration.  [Unmodelled] answers (KNL quirk,
   indexes too large for the model, the distance over-read) are outside them. *)

(* Totality: the model answers on every view (structural recursion only: no fuel to exhaust), and the cpumap
   reader it is built on never fails on a file that could be opened (cpumask_parse is total, parse_total). *)
Theorem node_model_total : forall v,
  (exists l, linux_node_requests v = Requests l) \/ (exists why, linux_node_requests v = Unmodelled why).
Proof. intros v. destruct (linux_node_requests v) as [l|why]; [left|right]; eauto. Qed.
Print Assumptions node_model_total.
Theorem node_cpumap_reader_total : forall content, exists s, read_mask (Some content) = Some s.
Proof. intros c. unfold read_mask. destruct (cpumask_parse_total c) as [s ->]. eauto. Qed.
Print Assumptions node_cpumap_reader_total.

(* Every NUMA request carries the nodeset {os_index}. *)
Theorem node_numa_nodeset : forall v l pre r post,
  linux_node_requests v = Requests l -> l = pre ++ r :: post ->
  r_type r = HWLOC_OBJ_NUMANODE -> r_ns r = bs_single (r_os r).
Proof. intros v l pre r post H. exact (mchain_ok_numa l pre r post (requests_chain_ok v l H)). Qed.
Print Assumptions node_numa_nodeset.

(* A MemCache request is immediately followed by the next object down its chain - another MemCache or the NUMA
   node - which has the same cpuset and nodeset; by induction the chain ends on the NUMA node it fronts (the
   request list never ends on a MemCache). *)
Theorem node_memcache_chain : forall v l pre r post,
  linux_node_requests v = Requests l -> l = pre ++ r :: post -> r_type r = HWLOC_OBJ_MEMCACHE ->
  exists r' post', post = r' :: post' /\ (r_type r' = HWLOC_OBJ_MEMCACHE \/ r_type r' = HWLOC_OBJ_NUMANODE) /\
                   r_cs r' = r_cs r /\ r_ns r' = r_ns r.
Proof. intros v l pre r post H. exact (mchain_ok_memcache l pre r post (requests_chain_ok v l H)). Qed.
Print Assumptions node_memcache_chain.

(* Whatever the HMAT initiators and the distance-based fix-up of CPU-less nodes do, the cpuset of every request
   is made of cpusets of the nodes as they are when the trees are built (final_nodes: the cpumaps of the created
   nodes, except that a node that is NVIDIA GPU memory has the local cpus of its GPU): nothing outside their union
   is ever assigned. *)
Theorem node_cpusets_from_created_nodes : forall v l,
  linux_node_requests v = Requests l ->
  exists indexes, (l = [] \/ list_nodes v = inl (Some indexes)) /\
    forall r, In r l -> sub (r_cs r) (created_union (final_nodes v indexes)).
Proof. exact requests_within_created. Qed.
Print Assumptions node_cpusets_from_created_nodes.

(* Unless HWLOC_DEBUG_ALLOW_OVERLAPPING_NODE_CPUSETS (or fake NUMA) allows it, the cpumaps of the created nodes
   are pairwise disjoint: a node whose cpumap meets an earlier one is dropped. *)
Theorem node_cpumaps_disjoint : forall v indexes,
  allow_overlap v = 0%Z -> ForallOrdPairs disjoint_slots (create_nodes v indexes).
Proof. exact create_nodes_disjoint. Qed.
Print Assumptions node_cpumaps_disjoint.

(* No two NUMA requests have the same os index: the indexes listed by list_sysfsnode are the members of a set
   (node/online, or the distinct numbers denoted by the directory entries - since /repo bba5c6e; before that fix two
   entries such as "node1" and "node 1" made the backend create node 1 twice, a real invalid topology found by the
   node-mutation stream), and each created node is requested exactly once. *)
Theorem node_os_distinct : forall v l, linux_node_requests v = Requests l -> NoDup (numa_os l).
Proof.
  intros v l H. destruct (requests_inv v l H) as [->|[indexes [dist [L _]]]]; [constructor|].
  exact (numa_requests_distinct v indexes l L (list_nodes_nodup v indexes L) H).
Qed.
Print Assumptions node_os_distinct.

(* The order of the NUMA requests: first the nodes whose cpumap is not empty, in index-array order, then the CPU-less
   ones, in index-array order ("non-empty cpumap first" of look_sysfsnode), each created node exactly once. *)
Theorem node_request_order : forall v indexes l,
  list_nodes v = inl (Some indexes) -> linux_node_requests v = Requests l ->
  numa_os l = nonzero_os (final_nodes v indexes) ++ zero_os (final_nodes v indexes).
Proof. exact numa_requests_order. Qed.
Print Assumptions node_request_order.

Example node_os_distinct_nonvacuous : exists v l, linux_node_requests v = Requests l /\ numa_os l = [0; 2; 1].
Proof. destruct distinct_view_meets as [_ [_ [l [H3 H4]]]]. eexists _, _. eauto. Qed.
