(* C06: loading arbitrary XML never corrupts memory or hangs: the part that is proved is the
   nolibxml tokenizer (coq/Text/XmlLex.v, model of hwloc/topology-xml-nolibxml.c with checked reads
   and writes).  The rest of the property (importer above the tokenizer, libxml2 backend, read-only
   battery, reload) is decided per run by the sanitizers, the watchdog and the verified checker
   wf_check on the real library (checks/c06.py). *)
From Coq Require Import String NArith ZArith List.
From HV Require Import Base.Bytes Text.XmlLex Text.XmlLexProofs Text.Base64 Text.Base64Mem Text.Base64MemProofs.
Import ListNotations.
Local Open Scope N_scope.

(* for every block whose last byte is NUL: the header handling never leaves the block and hands out
   a state whose cursors are inside it; from every such state every entry point returns without any
   out-of-bounds read or write, within its fuel (length + 1 iterations per inner loop), and
   re-establishes the same invariant *)
Theorem xml_lex_safe : forall s n, wfb s n ->
  (exists r, look_init s = Ok r /\
     match r with LiOk _ _ st => cur_ok n st /\ tagname st <> TNull | LiFail => True end) /\
  (exists r, diff_init s = Ok r /\ match r with Some st => cur_ok n st | None => True end) /\
  (forall st, cur_ok n st -> entry_points_safe s n st).
Proof. exact xml_lex_safe_lemma. Qed.
Print Assumptions xml_lex_safe.

(* bounded time for client loops: each successful next_attr / find_child moves a cursor strictly
   forward inside [0, n] *)
Theorem xml_lex_progress : forall s n st, wfb s n -> cur_ok n st ->
  (forall s' st' nm vl, next_attr s st = Ok (s', st', Some (nm, vl)) ->
     exists a a', attrbuffer st = Some a /\ attrbuffer st' = Some a' /\ a < a' <= n) /\
  (forall s' c tg, find_child s st = Ok (s', FcChild c tg) -> tagbuffer st < tagbuffer c <= n).
Proof. exact xml_lex_progress_lemma. Qed.
Print Assumptions xml_lex_progress.

(* the hypothesis "close_content only after get_content" of xml_lex_safe cannot be dropped *)
Theorem close_content_needs_protocol :
  exists s n st, wfb s n /\ cur_ok n st /\ exists s', close_content s st = Ok s' /\ ~ wfb s' n.
Proof. exact close_content_needs_protocol_lemma. Qed.
Print Assumptions close_content_needs_protocol.

(* the base64 decoder of <userdata encoding="base64"> (hwloc_decode_from_base64 with its four bound tests, target
   modelled as a block of targsize bytes with checked reads and stores): for EVERY source string and EVERY target
   size no access falls at an index >= targsize; the count it returns is at most targsize *)
Theorem b64_decode_in_bounds : forall src targsize, decode_mem src targsize <> Oob.
Proof. exact b64_decode_in_bounds_lemma. Qed.
Print Assumptions b64_decode_in_bounds.
Theorem b64_decode_count : forall src targsize n out,
  decode_mem src targsize = Ok (Some (n, out)) -> n <= targsize /\ len out = targsize.
Proof. exact b64_decode_count_lemma. Qed.
Print Assumptions b64_decode_count.
(* the importer's call: length+1 bytes for length decoded bytes; one byte less is refused, not overrun *)
Example b64_decode_exact_fit :
  decode_mem (bytes_of_string "YWJjZA==") 5 = Ok (Some (4, [97; 98; 99; 100; 0])) /\
  decode_mem (bytes_of_string "YWJjZA==") 4 = Ok None /\
  decode_mem (bytes_of_string "YWJjZGU=") 5 = Ok None.
Proof. vm_compute. repeat split. Qed.

(* ---- non-vacuity: a concrete block meeting the hypotheses, and what the model computes on it ---- *)
Definition doc1 : list N := cstr "<topology version=""2.0""><object type=""Machine"" name=""a&amp;b""><info name=""x""/></object></topology>".
Example doc1_wfb : wfb doc1 (len doc1 - 1).
Proof. split; reflexivity. Qed.
Example doc1_walk :
  walk_topology doc1 = Ok
    [EInit 2 0; EChild (bytes_of_string "object") false;
     EAttr (bytes_of_string "type") (bytes_of_string "Machine"); EAttr (bytes_of_string "name") (bytes_of_string "a&b");
     EChild (bytes_of_string "info") true; EAttr (bytes_of_string "name") (bytes_of_string "x"); EClose true;
     EClose true; EClose true].
Proof. vm_compute. reflexivity. Qed.

(* regression witnesses of the two tokenizer defects found on the snapshot (now fixed in /repo):
   no '>' after the topology tag (efb4592) and text ending right after name=QUOTE (214eeaf) *)
Example look_init_no_gt : look_init (cstr "<topology version=""2.0""") = Ok LiFail.
Proof. vm_compute. reflexivity. Qed.
Example next_attr_text_ends_in_value :
  walk_topology (cstr "<topology version=""2.0""><object type=""Machine"" name="">"" subtype=""")
  = Ok [EInit 2 0; EChild (bytes_of_string "object") false;
        EAttr (bytes_of_string "type") (bytes_of_string "Machine"); EFindErr].
Proof. vm_compute. reflexivity. Qed.
