(* C06: loading arbitrary XML never corrupts memory or hangs: the part that is proved is the
   nolibxml tokenizer (coq/Text/XmlLex.v, model of hwloc/topology-xml-nolibxml.c with checked reads
   and writes).  The rest of the property (importer above the tokenizer, libxml2 backend, read-only
   battery, reload) is decided per run by the sanitizers, the watchdog and the verified checker
   wf_check on the real library (checks/c06.py). *)
From Coq Require Import String NArith ZArith List.
From HV Require Import Base.Bytes Gen.Tables Text.TypeOrder Text.XmlLex Text.XmlLexProofs Text.Base64 Text.Base64Mem Text.Base64MemProofs Text.XmlImport Text.XmlImportProofs.
Import ListNotations.
Local Open Scope N_scope.

(* for every block whose last byte is NUL: the header handling never leaves the block and hands out
   a state whose cursors are inside it; from every such state every entry point returns without any
   out-of-bounds read or write, within its fuel (length + 1 iterations per inner loop), and
   re-establishes the same invariant *)
Theorem xml_lex_safe : forall s n, wfb s n ->
  (exists r, look_init s = Ok r /\
     match r with LiOk _ _ st => cur_ok n st /\ tagname st <> TNull | LiFail => True end) /\
  (exists r, diff_init s = Ok r /\ match r with Some st => cur_ok n st | None => True end) /\
  (forall st, cur_ok n st -> entry_points_safe s n st).
Proof. exact xml_lex_safe_lemma. Qed.
Print Assumptions xml_lex_safe.

(* bounded time for client loops: each successful next_attr / find_child moves a cursor strictly
   forward inside [0, n] *)
Theorem xml_lex_progress : forall s n st, wfb s n -> cur_ok n st ->
  (forall s' st' nm vl, next_attr s st = Ok (s', st', Some (nm, vl)) ->
     exists a a', attrbuffer st = Some a /\ attrbuffer st' = Some a' /\ a < a' <= n) /\
  (forall s' c tg, find_child s st = Ok (s', FcChild c tg) -> tagbuffer st < tagbuffer c <= n).
Proof. exact xml_lex_progress_lemma. Qed.
Print Assumptions xml_lex_progress.

(* the hypothesis "close_content only after get_content" of xml_lex_safe cannot be dropped *)
Theorem close_content_needs_protocol :
  exists s n st, wfb s n /\ cur_ok n st /\ exists s', close_content s st = Ok s' /\ ~ wfb s' n.
Proof. exact close_content_needs_protocol_lemma. Qed.
Print Assumptions close_content_needs_protocol.

(* the base64 decoder of <userdata encoding="base64"> (hwloc_decode_from_base64 with its four bound tests, target
   modelled as a block of targsize bytes with checked reads and stores): for EVERY source string and EVERY target
   size no access falls at an index >= targsize; the count it returns is at most targsize *)
Theorem b64_decode_in_bounds : forall src targsize, decode_mem src targsize <> Oob.
Proof. exact b64_decode_in_bounds_lemma. Qed.
Print Assumptions b64_decode_in_bounds.
Theorem b64_decode_count : forall src targsize n out,
  decode_mem src targsize = Ok (Some (n, out)) -> n <= targsize /\ len out = targsize.
Proof. exact b64_decode_count_lemma. Qed.
Print Assumptions b64_decode_count.
(* the importer's call: length+1 bytes for length decoded bytes; one byte less is refused, not overrun *)
Example b64_decode_exact_fit :
  decode_mem (bytes_of_string "YWJjZA==") 5 = Ok (Some (4, [97; 98; 99; 100; 0])) /\
  decode_mem (bytes_of_string "YWJjZA==") 4 = Ok None /\
  decode_mem (bytes_of_string "YWJjZGU=") 5 = Ok None.
Proof. vm_compute. repeat split. Qed.

(* ---- the importer's structural acceptance rules (coq/Text/XmlImport.v: model of hwloc_look_xml /
   hwloc__xml_import_object / hwloc__xml_import_object_attr on an abstract element tree) ----
   For EVERY document: the model answers (it is a total function: Accept t, Reject or Unmodelled), and when it
   accepts, the object tree t handed to the core satisfies the structural clauses that depend only on the
   document: the root is a Machine; below, no Machine, nothing normal under a PU, normal objects under normal
   ones, memory objects not under I/O or Misc, I/O objects not under memory or Misc; I/O and Misc objects carry
   no set at all, every other object has a cpuset and a nodeset; cache objects have the depth and type
   attributes of their type; a PU's cpuset and a NUMA node's nodeset are the singleton of its os_index; a Bridge
   has a host or PCI upstream and a PCI downstream; every MemCache has a memory child; there is at least one PU
   and one NUMA node; the version is 2.x or 3.x *)
Theorem import_total : forall d, (exists t, import_doc d = Accept t) \/ import_doc d = Reject \/ import_doc d = Unmodelled.
Proof. exact import_total_lemma. Qed.
Print Assumptions import_total.
Theorem import_accept_wf : forall d t, import_doc d = Accept t ->
  tree_okb None t = true /\ 1 <= count_type HWLOC_OBJ_PU t /\ 1 <= count_type HWLOC_OBJ_NUMANODE t /\ 2 <= d_major d <= 3.
Proof. exact import_accept_lemma. Qed.
Print Assumptions import_accept_wf.
(* the same, object by object: n is any object of the accepted tree, q the type of the object it hangs below *)
Theorem import_accept_nodes : forall d t q n, import_doc d = Accept t -> node_in None t q n ->
  node_okb q (t_type n) (t_ost n) = true /\
  (t_type n = HWLOC_OBJ_MEMCACHE -> exists k, In k (t_kids n) /\ is_memory (t_type k) = true).
Proof. exact import_accept_nodes_lemma. Qed.
Print Assumptions import_accept_nodes.
Theorem import_accept_root : forall d t, import_doc d = Accept t -> t_type t = HWLOC_OBJ_MACHINE.
Proof. exact import_accept_root_lemma. Qed.
Print Assumptions import_accept_root.

(* non-vacuity: a document with a MemCache above a NUMA node, a Group converted to Die, a Bridge, a Misc object *)
Definition at_ (n v : string) : list N * list N := (bytes_of_string n, bytes_of_string v).
Definition sets (cs ns : string) := [at_ "cpuset" cs; at_ "complete_cpuset" cs; at_ "nodeset" ns; at_ "complete_nodeset" ns].
Definition ob (ty : string) (extra : list (list N * list N)) (kids : list elem) : elem :=
  Elem (bytes_of_string "object") (at_ "type" ty :: extra) [10] false kids.
Definition doc2 : doc := Doc 3 0 [
  ob "Machine" (at_ "os_index" "0" :: sets "0x3" "0x1") [
    Elem (bytes_of_string "info") [at_ "name" "a"; at_ "value" "b"] [] true [];
    ob "MemCache" (sets "0x3" "0x1" ++ [at_ "depth" "1"]) [ob "NUMANode" (at_ "os_index" "0" :: sets "0x3" "0x1") []];
    ob "Group" (sets "0x3" "0x1" ++ [at_ "kind" "104"]) [
      ob "L2Cache" (sets "0x3" "0x1" ++ [at_ "depth" "2"; at_ "cache_type" "0"]) [
        ob "PU" (at_ "os_index" "0" :: sets "0x1" "0x1") []; ob "PU" (at_ "os_index" "1" :: sets "0x2" "0x1") []]];
    ob "Bridge" [at_ "bridge_type" "0-1"; at_ "bridge_pci" "0000:[01-01]"] [ob "PCIDev" [at_ "pci_busid" "0000:01:00.0"] []];
    ob "Misc" [] []];
  Elem (bytes_of_string "support") [at_ "name" "discovery.pu"] [] true []].
Example doc2_accepted : exists t, import_doc doc2 = Accept t /\
  map t_type (t_kids t) = [HWLOC_OBJ_MEMCACHE; HWLOC_OBJ_DIE; HWLOC_OBJ_BRIDGE; HWLOC_OBJ_MISC].
Proof. vm_compute. eexists. split; reflexivity. Qed.
(* and the refusals the theorem rests on: a MemCache without memory child, an I/O object with a complete set, a Package root *)
Example import_refusals :
  import_doc (Doc 3 0 [ob "Machine" (sets "0x1" "0x1") [ob "MemCache" (sets "0x1" "0x1") []; ob "NUMANode" (at_ "os_index" "0" :: sets "0x1" "0x1") []; ob "PU" (at_ "os_index" "0" :: sets "0x1" "0x1") []]]) = Reject /\
  import_doc (Doc 3 0 [ob "Machine" (sets "0x1" "0x1") [ob "NUMANode" (at_ "os_index" "0" :: sets "0x1" "0x1") []; ob "PU" (at_ "os_index" "0" :: sets "0x1" "0x1") []; ob "Misc" [at_ "complete_cpuset" "0x1"] []]]) = Reject /\
  import_doc (Doc 3 0 [ob "Package" (sets "0x1" "0x1") [ob "NUMANode" (at_ "os_index" "0" :: sets "0x1" "0x1") []; ob "PU" (at_ "os_index" "0" :: sets "0x1" "0x1") []]]) = Reject /\
  import_doc (Doc 3 0 [ob "Machine" (sets "0x1" "0x1") [ob "NUMANode" (at_ "os_index" "0" :: sets "0x1" "0x1") []; ob "PU" (at_ "os_index" "0" :: sets "0x1" "0x1") []]; Elem (bytes_of_string "cpukind") [] [] true []]) = Unmodelled.
Proof. vm_compute. repeat split. Qed.

(* ---- non-vacuity: a concrete block meeting the hypotheses, and what the model computes on it ---- *)
Definition doc1 : list N := cstr "<topology version=""2.0""><object type=""Machine"" name=""a&amp;b""><info name=""x""/></object></topology>".
Example doc1_wfb : wfb doc1 (len doc1 - 1).
Proof. split; reflexivity. Qed.
Example doc1_walk :
  walk_topology doc1 = Ok
    [EInit 2 0; EChild (bytes_of_string "object") false;
     EAttr (bytes_of_string "type") (bytes_of_string "Machine"); EAttr (bytes_of_string "name") (bytes_of_string "a&b");
     EChild (bytes_of_string "info") true; EAttr (bytes_of_string "name") (bytes_of_string "x"); EClose true;
     EClose true; EClose true].
Proof. vm_compute. reflexivity. Qed.

(* regression witnesses of the two tokenizer defects found on the snapshot (now fixed in /repo):
   no '>' after the topology tag (efb4592) and text ending right after name=QUOTE (214eeaf) *)
Example look_init_no_gt : look_init (cstr "<topology version=""2.0""") = Ok LiFail.
Proof. vm_compute. reflexivity. Qed.
Example next_attr_text_ends_in_value :
  walk_topology (cstr "<topology version=""2.0""><object type=""Machine"" name="">"" subtype=""")
  = Ok [EInit 2 0; EChild (bytes_of_string "object") false;
        EAttr (bytes_of_string "type") (bytes_of_string "Machine"); EFindErr].
Proof. vm_compute. reflexivity. Qed.
