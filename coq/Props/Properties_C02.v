(* C02 - property theorems only (DESIGN.md 6.C02).
   Model: Topo/Api.v (step : topo -> call -> topo * result for insert_misc, info edits, allow, Group
   alloc/insert/free) and Topo/Insert.v (hwloc___insert_object_by_cpuset).  Proofs: Topo/ApiProofs.v.
   restrict / distances / memattrs / cpukinds are other models (C08, C13, C14, C15); histories containing
   them are decided on the C side (checks/c02.py). *)
From Coq Require Import List NArith ZArith Bool String Permutation.
From HV Require Import Base.BSet Gen.Tables Text.TypeOrder Topo.Dump Topo.WFCheck Topo.Obj Topo.Insert Topo.Api Topo.ApiProofs Topo.InsertProofs.
Import ListNotations.
Local Open Scope N_scope.

(* Every modelled call other than insert_misc / insert_group, with any argument, valid or not, leaves the
   object tree literally unchanged. *)
Theorem step_tree_unchanged : forall t c, structural c = false -> m_root (fst (step t c)) = m_root t.
Proof. exact ApiProofs.step_tree_unchanged. Qed.
Print Assumptions step_tree_unchanged.

(* Inv (sibling cpusets pairwise disjoint and ordered, child sets inside the parent's, parent cpuset = union
   of the children's, gp_index unique and below next_gp_index, allowed sets inside the root's cpuset/nodeset)
   is preserved by EVERY modelled call except Group insertion (insert_misc included), for every argument,
   valid or not.  _partial: for Group insertion the full statement is FALSE on the faithful model
   (step_preserves_inv_refuted below, known finding dontmerge-group-missing-complete-cpuset); what is proved
   about it is insert_keeps_order_partial. *)
Theorem step_preserves_inv_partial : forall t c, is_group_insert c = false -> Inv t -> Inv (fst (step t c)).
Proof. exact ApiProofs.step_preserves_inv_nongroup. Qed.
Print Assumptions step_preserves_inv_partial.

Theorem history_preserves_inv_partial : forall cs t,
  forallb (fun c => negb (is_group_insert c)) cs = true -> Inv t -> Inv (run t cs).
Proof. exact ApiProofs.history_preserves_inv_nongroup. Qed.
Print Assumptions history_preserves_inv_partial.

(* no object disappears and none changes its gp_index through any call but Group insertion *)
Theorem gp_index_kept_partial : forall t c a,
  is_group_insert c = false -> In a (gps (m_root t)) -> In a (gps (m_root (fst (step t c)))).
Proof. exact ApiProofs.gp_index_kept_nongroup. Qed.
Print Assumptions gp_index_kept_partial.

Example Inv_nonvacuous : Inv topo1 /\ Inv (run topo1 [CAllow 4 (Some (bs_of_N 3)) None; CMisc 8 None; CInfoAdd 8 (Some "a"%string) (Some "b"%string); CGroupFree (gsp 3 true 0)]).
Proof. split; [exact Inv_topo1|]. apply ApiProofs.history_preserves_inv_nongroup; [reflexivity|exact Inv_topo1]. Qed.

(* allowed sets stay inside the root's cpuset / nodeset after hwloc_topology_allow, for every flag word and
   every sets (ALL included: fix fe89389) *)
Theorem allow_preserves_allowed : forall t f c n, allowed_ok t -> allowed_ok (fst (step_allow t f c n)).
Proof. exact ApiProofs.allow_preserves_allowed. Qed.
Print Assumptions allow_preserves_allowed.

Example allow_nonvacuous :
  allowed_ok topo_off /\ snd (step topo_off (CAllow HWLOC_ALLOW_FLAG_ALL None None)) = RInt 0 /\
  m_acpu (fst (step topo_off (CAllow HWLOC_ALLOW_FLAG_ALL None None))) = bs_of_N 15.
Proof. split; [split; vm_compute; reflexivity|exact allow_all_example]. Qed.

(* A call that fails with an errno leaves every observable attribute unchanged (tree, flags, filters, allowed
   sets, infos, per-object extras): for EVERY modelled call and EVERY argument (CUSTOM allow included: fix b0d22fb). *)
Theorem step_error_is_identity : forall t c e,
  snd (step t c) = RErr e -> obs (fst (step t c)) = obs t.
Proof. exact ApiProofs.step_error_is_identity. Qed.
Print Assumptions step_error_is_identity.

Example error_identity_nonvacuous :
  snd (step topo0 (CAllow 8 None None)) = RErr EINVAL /\ snd (step topo0 (CGroup (gsp 0 false 0))) = RErr EINVAL /\
  snd (step topo0d (CAllow HWLOC_ALLOW_FLAG_CUSTOM (S 3) (S 32))) = RErr EINVAL.
Proof. repeat split; vm_compute; reflexivity. Qed.

(* gp_index: through any history of non-restructuring calls the tree (hence every gp_index) is the same *)
Theorem gp_index_stable_partial : forall cs t,
  forallb (fun c => negb (structural c)) cs = true -> m_root (run t cs) = m_root t.
Proof. exact ApiProofs.gp_index_stable_partial. Qed.
Print Assumptions gp_index_stable_partial.

(* userdata of every existing object (named by gp_index) is never altered by any modelled call except Group
   insertion, along whole histories.  _partial: the full statement is FALSE on the faithful model (refuted below) *)
Theorem userdata_untouched_partial : forall cs t g,
  forallb (fun c => negb (is_group_call c)) cs = true ->
  g < m_next_gp t -> x_ud (get_extra (m_extra (run t cs)) g) = x_ud (get_extra (m_extra t) g).
Proof. exact ApiProofs.history_userdata_untouched. Qed.
Print Assumptions userdata_untouched_partial.

(* Group insertion can overwrite a surviving object: a mergeable Group of smaller kind (or a dont_merge Group)
   with the sets of an existing mergeable Group replaces its contents in place (hwloc_replace_linked_object);
   since 6dba2e5 the object keeps its gp_index, but its userdata is replaced by the inserted Group's *)
Theorem userdata_untouched_refuted : exists t g old,
  Inv t /\ old < m_next_gp t /\ existsb (N.eqb old) (gps (m_root (fst (step t (CGroup g))))) = true /\
  x_ud (get_extra (m_extra (fst (step t (CGroup g)))) old) <> x_ud (get_extra (m_extra t) old).
Proof.
  exists topo1, (gsp 3 false 3), 8. destruct group_smaller_kind_overwrites_userdata as (_ & H2 & H3 & H4).
  split; [exact Inv_topo1|]. split; [reflexivity|]. split; [exact H2|]. rewrite H3, H4. discriminate.
Qed.
Print Assumptions userdata_untouched_refuted.

Example userdata_nonvacuous : x_ud (get_extra (m_extra topo1) 8) = true /\ 8 < m_next_gp topo1.
Proof. split; reflexivity. Qed.

(* Group insertion does NOT preserve Inv on the faithful model: two dont_merge Groups of different kinds with
   the same cpuset become siblings (and the new one has no complete_cpuset / nodeset) *)
Theorem step_preserves_inv_refuted : exists t g,
  Inv t /\ tree_inv (m_root (fst (step t (CGroup g)))) = false.
Proof. exists topo2, (gsp 3 true 7). split; [exact Inv_topo2|exact group_dontmerge_same_cpuset_breaks_inv]. Qed.
Print Assumptions step_preserves_inv_refuted.

(* insert_keeps_order: for EVERY tree whose levels are well formed (sibling cpusets pairwise disjoint, sorted
   by first index, inside the parent's cpuset and covering it) and EVERY new object with a non-empty cpuset
   inside the root's, if hwloc___insert_object_by_cpuset returns the object (inserted), then every level of
   the resulting tree is again well formed, the new object's children are exactly the old children it contains,
   and no existing payload changed.  _partial, hypotheses: complete_cpuset = cpuset or absent on every object
   (wfk inside tree_ok: no offline PUs), defect_free (excludes exactly the known defect: unmergeable Groups with
   EQUAL sets made siblings), descent_ok (an object strictly containing the new cpuset has children). *)
Theorem insert_keeps_order_partial : forall dms dm_new od, wfk od -> nonempty (dcs od) -> forall cur,
  tree_ok cur -> defect_free dms dm_new od cur -> descent_ok dms dm_new od cur -> onch cur <> [] ->
  forall o cur', odata o = od -> sub (dcs od) (okey cur) ->
  insert_by_cpuset dms dm_new cur o = (cur', OInserted) ->
  tree_ok cur' /\ odata cur' = odata cur.
Proof. exact InsertProofs.insert_keeps_order. Qed.
Print Assumptions insert_keeps_order_partial.

(* the executable invariant used by Inv implies the Prop-level one used above *)
Theorem tree_inv_tree_ok : forall o, all_wfkb o = true -> tree_inv o = true -> tree_ok o.
Proof. exact InsertProofs.tree_inv_tree_ok. Qed.
Print Assumptions tree_inv_tree_ok.

Example insert_keeps_order_nonvacuous :
  tree_ok tree1 /\ wfk od_example /\ nonempty (dcs od_example) /\
  defect_free [] false od_example tree1 /\ descent_ok [] false od_example tree1 /\
  snd (insert_by_cpuset [] false tree1 (Obj od_example [] [] [] [])) = OInserted /\
  tree_ok (fst (insert_by_cpuset [] false tree1 (Obj od_example [] [] [] []))).
Proof. exact InsertProofs.insert_keeps_order_nonvacuous. Qed.

(* hwloc___insert_object_by_cpuset, one level, for every children list: when every child is disjoint from
   OBJ or strictly inside it, OBJ is inserted, the disjoint children stay in order, the others become OBJ's
   children in order, and no child is lost or duplicated *)
Theorem insert_keeps_children_partial : forall rec dms dm_new d m i x l o,
  Forall (flat_child dms dm_new o) l ->
  exists (n' K T : list obj),
    ins_loop rec dms dm_new d m i x l [] [] None o = (Obj d n' m i x, OInserted) /\
    Permutation n' (with_children o T :: K) /\ Permutation (K ++ T) l.
Proof. exact ApiProofs.ins_loop_flat_no_loss. Qed.
Print Assumptions insert_keeps_children_partial.

(* no object lost on the put-back path: when the insertion is abandoned at this level (intersection without
   inclusion) CUR's children are exactly the old ones, whatever the order and the sets *)
Theorem putback_no_object_lost : forall rec dms dm_new d m i x l kept_rev taken putp o n' mm ii xx dd,
  Forall (fail_child dms dm_new o) l ->
  ins_loop rec dms dm_new d m i x l kept_rev taken putp o = (Obj dd n' mm ii xx, OFail) ->
  Permutation n' (rev kept_rev ++ taken ++ l).
Proof. exact ApiProofs.ins_loop_fail_no_loss. Qed.
Print Assumptions putback_no_object_lost.

Theorem putback_is_permutation : forall l taken, Permutation (putback l taken) (l ++ taken).
Proof. intros l taken. apply putback_perm. Qed.
Print Assumptions putback_is_permutation.

Example insert_nonvacuous :
  snd (step topo1 (CGroup (gsp 12 false 0))) = RObj (Some 9) true /\
  tree_inv (m_root (fst (step topo1 (CGroup (gsp 12 false 0))))) = true /\
  snd (step topo0 (CGroup (gsp 6 false 0))) = RNull /\ m_root (fst (step topo0 (CGroup (gsp 6 false 0)))) = m_root topo0.
Proof. repeat split; vm_compute; reflexivity. Qed.
