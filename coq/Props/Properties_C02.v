(* C02 - property theorems only (DESIGN.md 6.C02). *)
From Coq Require Import List NArith ZArith Bool String.
From HV Require Import Base.BSet Gen.Tables Text.TypeOrder Topo.Dump Topo.WFCheck Topo.Obj Topo.Insert Topo.Api Topo.ApiProofs.
Import ListNotations.
Local Open Scope N_scope.
