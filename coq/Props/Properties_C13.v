(* C13 - distances: what is added is what is returned, and it follows the objects.
   Property theorems only (proofs in Attr/DistancesProofs.v, model in
   Attr/Distances.v).  All statements are over arbitrary topologies (object
   tables), object lists, matrices, kind / flag words and list states.

   The four statements that were false on the original code (objs[0]==NULL
   accepted, MERGE_SWITCH_PORTS dropping non-port objects, get_by_name hiding
   kinds without FROM_*/VALUE_* bit, XML import refusing kind 0) were fixed in
   the repository (cc2297b, 59694b5, a30dc2a, 796206b; see known_findings.txt);
   the model follows the fixed code (FIX_* = true in Attr/Distances.v) and the
   full theorems below replace the former _refuted/_partial pairs.  The
   minimised inputs stay in corpus/c13. *)
From Coq Require Import List NArith ZArith Bool Lia Sorting.Sorted.
From HV Require Import Gen.Tables Attr.Distances Attr.DistancesProofs.
Import ListNotations.

(* ---------------- the in-place compaction ---------------- *)

(* hwloc_internal_distances_restrict, first loop nest, executed in place in the
   C order on an nb x nb array: for every vector of NULL / non-NULL objects the
   first n'*n' cells end up holding exactly the sub-matrix of the ORIGINAL
   values on the surviving rows and columns (no read sees an overwritten cell) *)
Theorem restrict_inplace_is_submatrix :
  forall (keep : list bool) (v : list N),
  let nb := length keep in
  let sel := sel_from keep O in
  let n' := length sel in
  length v = (nb * nb)%nat ->
  firstn (n' * n') (restrict_values keep nb (nb - n') v) = submatrix sel nb v.
Proof. exact restrict_values_submatrix. Qed.
Print Assumptions restrict_inplace_is_submatrix.

Example restrict_inplace_nonvacuous :
  firstn 4 (restrict_values [true; false; true] 3 1 [1;2;3;4;5;6;7;8;9]%N) = [1;3;7;9]%N
  /\ restrict_values [true; false; true] 3 1 [1;2;3;4;5;6;7;8;9]%N = [1;3;7;9;5;6;7;8;9]%N.
Proof. vm_compute. auto. Qed.

(* the whole function (both loops + the caller's nbobjs -= disappeared): objects,
   indexes, types and values are exactly the selected ones *)
Theorem restrict_is_selection :
  forall (objs : list oref) idx dt v nb,
  length objs = nb ->
  (forall l, idx = Some l -> length l = nb) -> (forall l, dt = Some l -> length l = nb) ->
  length v = (nb * nb)%nat ->
  let keep := map is_some objs in
  restrict_all objs idx dt v nb (nb - countb keep) =
  (pick keep objs, option_map (pick keep) idx, option_map (pick keep) dt, submatrix (sel_from keep O) nb v).
Proof. exact restrict_all_spec. Qed.
Print Assumptions restrict_is_selection.

(* ---------------- get ---------------- *)

(* dist_nr_convention + dist_get_filter_exact: for every state, filter and
   caller array (any size, any content): rc = 0, *nr = number of matching
   structures whatever the array size, the array holds the first matches in
   list order and NULL after them *)
Theorem dist_nr_convention :
  forall t name ty kind garbage,
  let t' := refresh t in
  let ms := filter (matches name ty kind) (t_dists t') in
  get_core t name ty kind 0 garbage =
  (t', Ok (length ms, firstn (length garbage) (map pub ms) ++ repeat None (length garbage - length ms))).
Proof. exact get_core_spec. Qed.
Print Assumptions dist_nr_convention.

(* the loop's filter is the documented one *)
Theorem dist_get_filter_exact :
  forall name ty kind d, matches name ty kind d = true <-> matches_spec name ty kind d.
Proof. exact matches_iff. Qed.
Print Assumptions dist_get_filter_exact.

(* nonzero flags: EINVAL and not even a refresh *)
Theorem dist_get_flags_rejected :
  forall t name ty kind flags garbage, flags <> 0%N -> get_core t name ty kind flags garbage = (t, Err EINVAL).
Proof. intros. unfold get_core. destruct (N.eqb_spec flags 0); [congruence|reflexivity]. Qed.

(* by_depth is by_type of the depth's type, EINVAL for a depth without type *)
Theorem dist_get_by_depth_is_by_type :
  forall t depth kind garbage,
  let ty := depth_type (t_levels t) depth in
  get_by_depth t depth kind 0 garbage = if (ty =? TYPE_NONE)%N then (t, Err EINVAL) else get_by_type t ty kind 0 garbage.
Proof. intros. unfold get_by_depth, get_by_type. simpl. fold ty. destruct (ty =? TYPE_NONE)%N; reflexivity. Qed.

(* get_by_name returns exactly the structures carrying that name (any kind word) *)
Theorem dist_get_by_name :
  forall t n garbage,
  get_by_name t (Some n) 0 garbage =
  (let ms := filter (name_matches (Some n)) (t_dists (refresh t)) in
   (refresh t, Ok (length ms, firstn (length garbage) (map pub ms) ++ repeat None (length garbage - length ms))))
  /\ forall d, name_matches (Some n) d = true <-> d_name d = Some n.
Proof. intros. split; [apply get_core_spec|apply name_matches_spec]. Qed.

(* ---------------- add ---------------- *)

(* dist_add_get: for every state whose ids are below next_dist_id, every name,
   valid kind word, valid commit flags, >= 2 non-NULL objects (any types) and
   matrix: the add succeeds, appends one structure, and get returns it last
   with the same name, objects, values and kind | HETEROGENEOUS_TYPES iff the
   object types differ *)
Theorem dist_add_get :
  forall t name kind commitflags (objs : list obj) values garbage,
  kind_okb kind = true -> cflags_okb commitflags = true ->
  (2 <= length objs)%nat -> length values = (length objs * length objs)%nat ->
  Forall (fun o => o_type o <> TYPE_NONE) objs ->
  Forall (fun d => d_id d <> t_next_id t) (t_dists t) ->
  exists t',
    add_full t name kind 0 (length objs) (map Some objs) values 0 commitflags = (t', Ok tt) /\
    let pd := PDist (t_next_id t) (length objs) (map Some objs)
                    (if all_same_type objs then kind else N.lor kind HWLOC_DISTANCES_KIND_HETEROGENEOUS_TYPES) values in
    exists pre,
      get_all t' 0 0 garbage =
      (refresh t', Ok (S (length pre), firstn (length garbage) (pre ++ [Some pd]) ++ repeat None (length garbage - S (length pre))))
      /\ get_name (refresh t') pd = name.
Proof. intros. apply add_then_get; auto. Qed.
Print Assumptions dist_add_get.

Example dist_add_get_nonvacuous :
  kind_okb 6 = true /\ cflags_okb 1 = true /\ kind_okb 0 = true /\ kind_okb 7 = false /\ kind_okb 12 = false /\ kind_okb 64 = false.
Proof. vm_compute. auto 10. Qed.

(* every kind word of 64 bits: accepted iff no unknown bit, at most one FROM_*, at most one VALUE_* *)
Theorem dist_create_kind_validation :
  forall t name kind, kind_okb kind = false -> add_create t name kind 0 = (t, Err EINVAL).
Proof.
  intros t name kind H. unfold add_create. unfold kind_okb in H.
  destruct (N.land kind _ =? 0)%N; simpl in *; auto.
  destruct (1 <? weight (N.land kind HWLOC_DISTANCES_KIND_FROM_ALL))%nat; simpl in *; auto.
  destruct (1 <? weight (N.land kind HWLOC_DISTANCES_KIND_VALUE_ALL))%nat; simpl in *; auto. discriminate.
Qed.

(* a rejected add (whatever the reason) leaves the list and the objects unchanged *)
Theorem dist_reject_unchanged :
  forall t name kind cflags nb objs values vflags commitflags t' e,
  add_full t name kind cflags nb objs values vflags commitflags = (t', Err e) ->
  t_dists t' = t_dists t /\ t_objs t' = t_objs t.
Proof. intros until e. apply add_full_err_unchanged. Qed.
Print Assumptions dist_reject_unchanged.

(* dist_reject_identity: every add that is invalid for any documented reason
   (kind word, create flags, values flags, nbobjs < 2, a NULL object anywhere,
   commit flags) is rejected and leaves the list unchanged *)
Definition o_core1 : obj := Obj HWLOC_OBJ_CORE 7 1 false.
Theorem dist_reject_identity :
  forall t name kind cflags nb (objs : list oref) values vflags commitflags,
  invalid_add kind cflags nb objs vflags commitflags ->
  exists t' e, add_full t name kind cflags nb objs values vflags commitflags = (t', Err e) /\
               t_dists t' = t_dists t.
Proof. intros. apply (add_full_rejects_gen true). exact H. Qed.
Print Assumptions dist_reject_identity.

Example invalid_add_nonvacuous :
  invalid_add 6 0 2 [None; Some o_core1] 0 0 /\ invalid_add 6 0 3 [Some o_core1; None; Some o_core1] 0 0.
Proof. split; right; right; right; right; left; reflexivity. Qed.

(* the model in force is the current code *)
Theorem model_follows_current_source :
  FIX_NULL_FIRST = true /\ FIX_MERGE_PORTS = true /\ FIX_BY_NAME_KIND = true /\ FIX_XML_KIND_ZERO = true.
Proof. auto. Qed.

(* the XML import accepts every structure the export can write (kind 0 included):
   it fails only on nbobjs = 0, which no committed structure has *)
Theorem xml_import_accepts_every_kind :
  forall d, d_nb d <> O -> xml_import_one d <> None.
Proof.
  intros d H. unfold xml_import_one. destruct (d_nb d) as [|n] eqn:E; [congruence|]. simpl.
  destruct (S n <? 2)%nat; discriminate.
Qed.

(* ---------------- follow the objects ---------------- *)

(* after the topology changed (restrict, dup, XML import: cached objects
   invalid), for every structure and every new object table: the objects are
   looked up again; the result references live objects only, is dropped iff
   fewer than 2 are found, is unchanged if all are found and otherwise holds
   the exact sub-matrix / selected indexes / selected types *)
Theorem dist_follow_objects :
  forall tobjs d,
  d_valid d = false -> wf_idist d ->
  let nb := d_nb d in
  let objs := lookup_all tobjs (d_unique d) (d_diff d) O (d_indexes d) in
  let keep := map is_some objs in
  Forall (fun r => forall o, r = Some o -> In o tobjs) objs /\
  ((countb keep < 2)%nat -> refresh_one tobjs d = None) /\
  (countb keep = nb -> (2 <= nb)%nat ->
     refresh_one tobjs d = Some (IDist (d_name d) (d_id d) (d_kind d) (d_unique d) (d_diff d) nb (d_indexes d) objs (d_values d) true)) /\
  ((2 <= countb keep)%nat -> (countb keep < nb)%nat ->
     refresh_one tobjs d = Some (IDist (d_name d) (d_id d) (d_kind d) (d_unique d) (option_map (pick keep) (d_diff d))
                                       (countb keep) (pick keep (d_indexes d)) (pick keep objs)
                                       (submatrix (sel_from keep O) nb (d_values d)) true)
     /\ Forall (fun r => exists o, r = Some o /\ In o tobjs) (pick keep objs)).
Proof. exact refresh_one_follow. Qed.
Print Assumptions dist_follow_objects.

(* what "looked up again" finds: the object with the same type and os_index
   (PU, NUMA node) or the same type and gp_index *)
Theorem dist_lookup_sound :
  forall tobjs unique dt i idx o,
  lookup tobjs unique dt i idx = Some o ->
  In o tobjs /\
  (if use_os_index unique then o_type o = unique /\ o_os o = (idx mod two32)%N
   else o_type o = match dt with Some l => nth i l TYPE_NONE | None => unique end /\ o_gp o = idx).
Proof. exact lookup_sound. Qed.

Theorem dist_refresh_list :
  forall tobjs ds,
  refresh_list tobjs ds = flat_map (fun d => match refresh_one tobjs d with Some d' => [d'] | None => [] end) ds
  /\ Forall (fun d => d_valid d = true) (refresh_list tobjs ds).
Proof. intros. split; [apply refresh_list_spec|apply refresh_all_valid]. Qed.

Theorem dist_dup_keeps_identity :
  forall d, wf_idist d ->
  wf_idist (dup_one d) /\ d_valid (dup_one d) = false /\ d_id (dup_one d) = d_id d /\
  d_indexes (dup_one d) = d_indexes d /\ d_values (dup_one d) = d_values d.
Proof. intros d H. destruct (dup_one_wf d H) as (A & B & C). destruct (dup_one_invalid d) as (D & E & _). auto. Qed.

Example dist_follow_nonvacuous :
  let d := IDist None 3 6 HWLOC_OBJ_CORE None 3 [4;7;12]%N [] [1;2;3;4;5;6;7;8;9]%N false in
  wf_idist d /\
  refresh_one [Obj HWLOC_OBJ_CORE 4 0 false; Obj HWLOC_OBJ_CORE 12 2 false] d =
  Some (IDist None 3 6 HWLOC_OBJ_CORE None 2 [4;12]%N
             [Some (Obj HWLOC_OBJ_CORE 4 0 false); Some (Obj HWLOC_OBJ_CORE 12 2 false)] [1;3;7;9]%N true).
Proof. split; [repeat split; intros; discriminate|vm_compute; reflexivity]. Qed.

(* ---------------- removals ---------------- *)
Theorem dist_remove_exact :
  forall t p,
  match from_public t (p_id p) with
  | None => release_remove t p = (t, Err EINVAL)
  | Some d => exists a b, t_dists t = a ++ d :: b /\ Forall (fun x => d_id x <> p_id p) a /\ d_id d = p_id p /\
                          release_remove t p = (set_dists t (a ++ b), Ok tt)
  end.
Proof. exact release_remove_exact. Qed.
Print Assumptions dist_remove_exact.

Theorem dist_remove_by_depth_exact :
  forall t depth,
  let ty := depth_type (t_levels t) depth in
  if (ty =? TYPE_NONE)%N then remove_by_depth t depth = (t, Err EINVAL)
  else exists ds, remove_by_depth t depth = (set_dists t ds, Ok tt) /\
                  ds = filter (fun d => negb (d_unique d =? ty)%N) (t_dists t) /\
                  forall d, In d ds <-> In d (t_dists t) /\ d_unique d <> ty.
Proof. exact remove_by_depth_exact. Qed.

Theorem dist_remove_all : forall t, t_dists (fst (remove_all t)) = [] /\ snd (remove_all t) = Ok tt.
Proof. intros; split; reflexivity. Qed.

(* ---------------- transforms ---------------- *)
Theorem transform_remove_null :
  forall p, wf_pdist p ->
  let keep := map is_some (p_objs p) in
  let c := countb keep in
  ((c < 2)%nat -> transform_remove_null p = (p, Err EINVAL)) /\
  (c = p_nb p -> (2 <= c)%nat -> transform_remove_null p = (p, Ok tt)) /\
  ((2 <= c)%nat -> (c < p_nb p)%nat ->
     transform_remove_null p =
     (PDist (p_id p) c (filter is_some (p_objs p)) (hetero_kind (filter is_some (p_objs p)) (p_kind p))
            (submatrix (sel_from keep O) (p_nb p) (p_values p)), Ok tt)).
Proof. exact transform_remove_null_spec. Qed.
Print Assumptions transform_remove_null.

(* MERGE_SWITCH_PORTS keeps every non-port object (the loop of the transform, for
   every list of visited positions after the first port i) *)
Theorem transform_merge_ports_keeps_nonports :
  forall js nb i (objs : list oref) v j,
  (forall j', In j' js -> (i < j')%nat) ->
  is_nvswitch (nth j objs None) = false ->
  nth j (fst (merge_loop FIX_MERGE_PORTS js nb i objs v)) None = nth j objs None.
Proof. exact merge_fixed_keeps_nonports. Qed.
Print Assumptions transform_merge_ports_keeps_nonports.

(* ... and the values between non-port objects: for every loop run (visited
   positions js below nb, first port i), a cell whose row and column are
   non-port objects other than the first port is never written *)
Theorem transform_merge_ports_keeps_values :
  forall nb i (objs : list oref) a b js v,
  (i < nb)%nat -> (b < nb)%nat -> a <> i -> b <> i ->
  is_nvswitch (nth a objs None) = false -> is_nvswitch (nth b objs None) = false ->
  (forall j, In j js -> (j < nb)%nat) ->
  nth (a * nb + b) (snd (merge_loop FIX_MERGE_PORTS js nb i objs v)) 0%N = nth (a * nb + b) v 0%N.
Proof. intros. apply (merge_loop_values_untouched FIX_MERGE_PORTS nb i objs a b); auto. Qed.
Print Assumptions transform_merge_ports_keeps_values.

(* LINKS, every case: EINVAL unless bandwidth; the diagonal is zeroed; if all
   cells are then 0 nothing else changes; otherwise the divider d is the
   smallest positive cell, ENOENT if some cell is not a multiple (the zeroed
   diagonal stays), else every cell x becomes x/d with (x/d)*d = x *)
Theorem transform_links :
  forall p, wf_pdist p ->
  let nb := p_nb p in
  let v0 := zero_diag nb nb (p_values p) in
  let d := smallest_positive v0 in
  (N.land (p_kind p) HWLOC_DISTANCES_KIND_VALUE_BANDWIDTH = 0%N -> transform_links p = (p, Err EINVAL)) /\
  (N.land (p_kind p) HWLOC_DISTANCES_KIND_VALUE_BANDWIDTH <> 0%N ->
     (d = 0%N -> transform_links p = (PDist (p_id p) nb (p_objs p) (p_kind p) v0, Ok tt) /\ Forall (fun x => x = 0%N) v0) /\
     (d <> 0%N -> In d v0 /\ Forall (fun x => x = 0%N \/ (d <= x)%N) v0 /\
        ((exists x, In x v0 /\ (x mod d <> 0)%N) ->
           transform_links p = (PDist (p_id p) nb (p_objs p) (p_kind p) v0, Err ENOENT)) /\
        (Forall (fun x => (x mod d = 0)%N) v0 ->
           transform_links p = (PDist (p_id p) nb (p_objs p) (p_kind p) (map (fun x => (x / d)%N) v0), Ok tt) /\
           Forall (fun x => (x / d * d = x)%N) v0))).
Proof. exact transform_links_spec. Qed.
Print Assumptions transform_links.

Theorem transform_links_zeroes_diagonal :
  forall nb v a b, (a < nb)%nat -> (b < nb)%nat -> length v = (nb * nb)%nat ->
  nth (a * nb + b) (zero_diag nb nb v) 0%N = if (a =? b)%nat then 0%N else nth (a * nb + b) v 0%N.
Proof.
  intros. rewrite zero_diag_spec by auto. rewrite (proj2 (Nat.ltb_lt a nb)) by auto. rewrite andb_true_r. reflexivity.
Qed.

Example transform_links_nonvacuous :
  fst (Distances.transform_links (PDist 0 2 [None; None] 8 [7;50;25;9]%N)) = PDist 0 2 [None; None] 8 [0;2;1;0]%N.
Proof. vm_compute. reflexivity. Qed.

(* ---------------- grouping (accuracy 0.0) ---------------- *)
Theorem grouping_matrix_check :
  forall nb v,
  check_grouping_matrix nb v = true <->
  forall i j, (i < j)%nat -> (j < nb)%nat ->
    vget v (i * nb + j) = vget v (j * nb + i) /\ (vget v (i * nb + i) < vget v (i * nb + j))%N.
Proof. exact check_grouping_matrix_spec. Qed.

Theorem grouping_min_distance :
  forall nb v,
  let m := min_distance nb v in
  (forall i j, (i < nb)%nat -> (j < nb)%nat -> i <> j -> (m <= vget v (i * nb + j))%N) /\
  (m = UINT64_MAX \/ exists i j, (i < nb)%nat /\ (j < nb)%nat /\ i <> j /\ m = vget v (i * nb + j)).
Proof. exact min_distance_spec. Qed.
Print Assumptions grouping_min_distance.

(* TRANSITIVE_CLOSURE: the in-place loops (which read the array they are
   writing) compute, for every object list, switch set and nb x nb matrix, the
   functional form: the cell between two distinct non-switch objects a, b gets
   + min(sum over switches k of v0[k][b], sum over switches k of v0[a][k]) mod 2^64
   computed on the ORIGINAL matrix; every other cell is unchanged *)
Theorem transform_transitive_closure :
  forall (objs : list oref) nb v0, length v0 = (nb * nb)%nat ->
  let r := closure_i (seq 0 nb) objs nb v0 in
  length r = (nb * nb)%nat /\
  forall a b, (a < nb)%nat -> (b < nb)%nat ->
    cell nb r a b =
    if negb (a =? b)%nat && negb (is_nvswitch (nth a objs None)) && negb (is_nvswitch (nth b objs None))
    then closure_cell objs nb v0 a b else cell nb v0 a b.
Proof. exact closure_spec. Qed.
Print Assumptions transform_transitive_closure.

Definition o_gpu (g : N) : obj := Obj HWLOC_OBJ_CORE g 0 false.
Definition o_port (g : N) : obj := Obj HWLOC_OBJ_CORE g 0 true.
Example transform_transitive_closure_nonvacuous :
  closure_i (seq 0 3) [Some (o_gpu 1); Some (o_port 2); Some (o_gpu 3)] 3 [0;5;1; 7;0;9; 2;4;0]%N = [0;5;6; 7;0;9; 6;4;0]%N.
Proof. vm_compute. reflexivity. Qed.

(* "groups are the connected components of the minimal-distance graph" is false
   on the current code: on the valid matrix with minimal edges 0-5, 5-2, 2-3
   object 2 joins group 1 in the round started from 0 (found from 5, below the
   first-found index 5), is never used as a source, and 3 stays ungrouped *)
Definition path_0523 : list N :=
  [0;9;9;9;9;1; 9;0;9;9;9;9; 9;9;0;1;9;1; 9;9;1;0;9;9; 9;9;9;9;0;9; 1;9;1;9;9;0]%N.

(* the patched scan (newfirstfound = smallest newly grouped index) puts 3 in the group *)
Example find_groups_closed_witness :
  find_groups_gen true 6 path_0523 = Some (1%nat, [1;0;1;1;0;1]%nat).
Proof. vm_compute. reflexivity. Qed.

(* the half of "groups = connected components" that holds for every matrix and
   both variants of the scan: two objects with the same non-zero group id are
   connected by a chain of minimal-distance edges (reflexive-symmetric-transitive
   closure of VALUE(j,k) == min_distance) *)
Theorem find_groups_connected :
  forall fixg nb v ng ids,
  find_groups_gen fixg nb v = Some (ng, ids) ->
  forall a b, nth a ids O = nth b ids O -> nth a ids O <> O -> min_conn nb v (min_distance nb v) a b.
Proof. exact find_groups_sound. Qed.
Print Assumptions find_groups_connected.

Example find_groups_connected_nonvacuous :
  find_groups_gen false 4 [0;1;5;5; 1;0;5;5; 5;5;0;1; 5;5;1;0]%N = Some (2%nat, [1;1;2;2]%nat).
Proof. vm_compute. reflexivity. Qed.

(* the public hwloc_topology_dup (internal dup + refresh of the copy): every
   structure of the copy has valid cached objects, keeps its id / name / kind, and
   is what dist_follow_objects says of the duplicated structure on the copy's objects *)
Theorem dist_topology_dup :
  forall t tobjs levels,
  let t' := topology_dup t tobjs levels in
  t_dists t' = flat_map (fun d => match refresh_one tobjs (dup_one d) with Some d' => [d'] | None => [] end) (t_dists t)
  /\ Forall (fun d => d_valid d = true) (t_dists t') /\ t_next_id t' = t_next_id t.
Proof.
  intros. unfold t', topology_dup, refresh. simpl. split; [|split; [apply refresh_all_valid|reflexivity]].
  rewrite refresh_list_spec. rewrite flat_map_concat_map, map_map, <- flat_map_concat_map. reflexivity.
Qed.
Print Assumptions dist_topology_dup.
