(* C13 - property theorems (stub, replaced below) *)
From Coq Require Import List NArith ZArith Bool Lia.
From HV Require Import Gen.Tables Attr.Distances.
Theorem c13_stub : FIX_NULL_FIRST = false.
Proof. reflexivity. Qed.
Print Assumptions c13_stub.
