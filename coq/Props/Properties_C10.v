(* C10 - property theorems only. *)
From Coq Require Import List NArith ZArith Bool.
From HV Require Import Base.BSet Gen.Tables Topo.Bind Topo.BindProofs.
Import ListNotations.
Local Open Scope N_scope.

Theorem policy_check_is_what_bind_c_accepts :
  forallb (fun e => forallb (fun pb => Bool.eqb (policy_ok (fst pb)) (snd pb)) (snd e)) bind_accepted_policies = true.
Proof. exact policy_ok_table. Qed.
Print Assumptions policy_check_is_what_bind_c_accepts.
