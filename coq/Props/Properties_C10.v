(* C10 - binding calls validate arguments, hand only legal sets to the OS, and
   round-trip.  Theorems only.  In every statement W / os / heap / present are
   universally quantified: the operating system behind the hooks is arbitrary,
   any subset of the hooks may exist; sets range over all finite and cofinite
   sets, flag words over all of N, policies over all of Z.
   The live round trip on the running system is OBSERVED by checks/c10.py, not
   proved (no model stands in for the kernel's scheduler). *)
From Coq Require Import List NArith ZArith Bool String.
From HV Require Import Base.BSet Gen.Tables Topo.Bind Topo.BindProofs.
Import ListNotations.
Local Open Scope N_scope.

(* ---- the model's constants are what the CURRENT bind.c accepts (probed through every entry point) ---- *)
Theorem allflags_are_what_every_entry_point_accepts :
  forallb (fun e => snd e =? (if is_membind_name (fst e) then MEMBIND_ALLFLAGS else CPUBIND_ALLFLAGS)) bind_accepted_flags = true
  /\ List.length bind_accepted_flags = 16%nat.
Proof. exact allflags_table. Qed.
Print Assumptions allflags_are_what_every_entry_point_accepts.

Theorem policy_check_is_what_bind_c_accepts :
  forallb (fun e => forallb (fun pb => Bool.eqb (policy_ok (fst pb)) (snd pb)) (snd e)) bind_accepted_policies = true.
Proof. exact policy_ok_table. Qed.
Print Assumptions policy_check_is_what_bind_c_accepts.

(* ---- invalid arguments never reach a binding hook: ALL entry points (allocation included), all hook configurations ---- *)
Theorem bind_invalid_never_reaches_os :
  forall W os heap present T a (w : W) c,
  invalid T a = true -> In c (s_trace (snd (run W os heap present T a w))) -> is_binding_call c = false.
Proof. exact run_invalid_no_binding. Qed.
Print Assumptions bind_invalid_never_reaches_os.

(* The statement "every entry point answers -1/EINVAL" is false on the faithful model for two documented
   classes: hwloc_alloc_membind without STRICT allocates anyway, and a zero-length hwloc_set_area_membind
   returns 0 before its node set is looked at. *)
Definition T_ex : topo :=
  TP (bs_of_N 0x0f) (bs_of_N 0xff) (bs_of_N 1) (bs_of_N 3) [(0, bs_of_N 0x0f); (1, bs_of_N 0xf0)] true.
Definition os_ok : hcall -> unit -> hres * unit := fun _ w => (HR 0 None bs_empty 0, w).
Definition all_present : hid -> bool := fun _ => true.
Definition heap_ok : N -> bool := fun _ => true.

Theorem bind_reject_before_os_refuted :
  exists a, invalid T_ex a = true /\ a_rc (fst (run unit os_ok heap_ok all_present T_ex a tt)) = 0%Z.
Proof. exists (A_set_area_membind 0 bs_empty HWLOC_MEMBIND_BIND HWLOC_MEMBIND_BYNODESET). vm_compute. auto. Qed.
Print Assumptions bind_reject_before_os_refuted.

(* ... and true everywhere else: unknown flag bit, bad policy, empty set, set outside the complete set,
   cpuset without usable NUMA nodes => -1/EINVAL, EMPTY hook trace, OS state untouched *)
Theorem bind_reject_before_os_partial :
  forall W os heap present T a (w : W),
  invalid T a = true -> api_is_alloc a = false -> area_len0_bynodeset T a = false ->
  a_rc (fst (run W os heap present T a w)) = (-1)%Z /\ s_errno (snd (run W os heap present T a w)) = EINVAL /\
  s_trace (snd (run W os heap present T a w)) = [] /\ s_w (snd (run W os heap present T a w)) = w.
Proof. exact reject_result. Qed.
Print Assumptions bind_reject_before_os_partial.

Theorem bind_reject_alloc_strict :
  forall W os heap present T len set p f (w : W),
  invalid T (A_alloc_membind len set p f) = true -> flag HWLOC_MEMBIND_STRICT f = true ->
  let a := A_alloc_membind len set p f in
  a_rc (fst (run W os heap present T a w)) = 0%Z /\ s_errno (snd (run W os heap present T a w)) = EINVAL /\
  s_trace (snd (run W os heap present T a w)) = [] /\ s_w (snd (run W os heap present T a w)) = w.
Proof. exact reject_result_alloc. Qed.
Print Assumptions bind_reject_alloc_strict.

Example reject_nonvacuous :
  invalid T_ex (A_set_cpubind bs_full 0) = true /\                         (* the "full" infinite set: rejected, not "unbind" *)
  invalid T_ex (A_set_cpubind (bs_of_N 0x100) 0) = true /\
  invalid T_ex (A_set_cpubind (bs_of_N 1) 16) = true /\
  invalid T_ex (A_set_membind (bs_of_N 1) 6 0) = true /\
  invalid T_ex (A_set_membind (bs_of_N 4) HWLOC_MEMBIND_BIND HWLOC_MEMBIND_BYNODESET) = true /\
  invalid T_ex (A_set_cpubind (bs_of_N 3) HWLOC_CPUBIND_THREAD) = false.
Proof. vm_compute. auto 10. Qed.

(* ---- every set handed to a hook is non-empty and inside the complete set: ALL arguments, no hypothesis ---- *)
Theorem bind_only_legal_sets_reach_os :
  forall W os heap present T a (w : W) c,
  In c (s_trace (snd (run W os heap present T a w))) -> legal_call T c = true.
Proof. exact run_only_legal. Qed.
Print Assumptions bind_only_legal_sets_reach_os.

(* ---- a set covering the topology set reaches the hooks as the COMPLETE set ---- *)
Theorem bind_full_becomes_complete :
  forall W os heap present T a (w : W) c x,
  covers_topology T a = true -> In c (s_trace (snd (run W os heap present T a w))) -> hc_set c = Some x ->
  x = complete_of T (hid_kind (hc_id c)).
Proof. exact run_full_complete. Qed.
Print Assumptions bind_full_becomes_complete.

Example full_becomes_complete_nonvacuous :
  (* topology set 0x0f, complete set 0xff: binding to 0x1f reaches the thread hook as 0xff;
     membind by cpuset 0x0f reaches it as the complete nodeset {0,1} *)
  s_trace (snd (run unit os_ok heap_ok all_present T_ex (A_set_cpubind (bs_of_N 0x1f) HWLOC_CPUBIND_THREAD) tt))
    = [HC H_set_thisthread_cpubind 0 (Some (bs_of_N 0xff)) 0 HWLOC_CPUBIND_THREAD 0] /\
  s_trace (snd (run unit os_ok heap_ok all_present T_ex (A_set_membind (bs_of_N 0x0f) HWLOC_MEMBIND_BIND HWLOC_MEMBIND_THREAD) tt))
    = [HC H_set_thisthread_membind 0 (Some (bs_of_N 3)) HWLOC_MEMBIND_BIND HWLOC_MEMBIND_THREAD 0] /\
  covers_topology T_ex (A_set_cpubind (bs_of_N 0x1f) HWLOC_CPUBIND_THREAD) = true.
Proof. vm_compute. auto. Qed.

(* memory binding BY CPUSET on a tree with a CPU-less NUMA node: hwloc_cpuset_to_nodeset alone never returns the
   CPU-less node, so it is the shortcut of hwloc_fix_membind_cpuset (whole-topology cpuset => COMPLETE nodeset)
   that makes the four set-like entry points hand over every node; a cpuset just short of covering gets the
   converted set *)
Definition T_cpuless : topo :=   (* "pack:2 [numa] pu:2" restricted to PUs 0-1: node 1 kept without CPUs *)
  TP (bs_of_N 3) (bs_of_N 3) (bs_of_N 3) (bs_of_N 3) [(0, bs_of_N 3); (1, bs_empty)] true.
Example membind_by_cpuset_reaches_cpuless_nodes :
  cpuset_to_nodeset T_cpuless (bs_of_N 3) = bs_of_N 1 /\
  covers_topology T_cpuless (A_set_membind (bs_of_N 3) HWLOC_MEMBIND_BIND HWLOC_MEMBIND_THREAD) = true /\
  map hc_set (s_trace (snd (run unit os_ok heap_ok all_present T_cpuless (A_set_membind (bs_of_N 3) HWLOC_MEMBIND_BIND HWLOC_MEMBIND_THREAD) tt))) = [Some (bs_of_N 3)] /\
  map hc_set (s_trace (snd (run unit os_ok heap_ok all_present T_cpuless (A_set_proc_membind 0 (bs_of_N 3) HWLOC_MEMBIND_BIND 0) tt))) = [Some (bs_of_N 3)] /\
  map hc_set (s_trace (snd (run unit os_ok heap_ok all_present T_cpuless (A_set_area_membind 4096 (bs_of_N 3) HWLOC_MEMBIND_BIND 0) tt))) = [Some (bs_of_N 3)] /\
  map hc_set (s_trace (snd (run unit os_ok heap_ok all_present T_cpuless (A_alloc_membind 4096 (bs_of_N 3) HWLOC_MEMBIND_BIND 0) tt))) = [Some (bs_of_N 3)] /\
  map hc_set (s_trace (snd (run unit os_ok heap_ok all_present T_cpuless (A_set_membind (bs_of_N 1) HWLOC_MEMBIND_BIND HWLOC_MEMBIND_THREAD) tt))) = [Some (bs_of_N 1)].
Proof. vm_compute. auto 10. Qed.
(* the general statement, for every topology (CPU-less nodes or not) and every entry point, is
   bind_full_becomes_complete above; this is its by-cpuset instance spelled out *)
Theorem membind_by_cpuset_whole_topology_gets_complete_nodeset :
  forall W os heap present T (w : W) a c x,
  api_is_mem a = true -> flag HWLOC_MEMBIND_BYNODESET (api_flags a) = false ->
  (exists s, api_set a = Some s /\ bs_subset (t_cpuset T) s = true) ->
  In c (s_trace (snd (run W os heap present T a w))) -> hc_set c = Some x -> x = t_cnodeset T.
Proof.
  intros W os heap present T w a c x Hm Hb [s [Hs Hc]] Hin Hx.
  assert (Hcov : covers_topology T a = true).
  { unfold covers_topology, api_setkind. rewrite Hs, Hm, Hb. exact Hc. }
  rewrite (run_full_complete W os heap present T a w c x Hcov Hin Hx).
  rewrite (run_mem_kind W os heap present T a w c Hm Hin) by (rewrite Hx; discriminate). reflexivity.
Qed.
Print Assumptions membind_by_cpuset_whole_topology_gets_complete_nodeset.

(* ---- no hook: -1/ENOSYS without touching the OS ---- *)
Theorem bind_enosys_without_hook :
  forall W os heap present T a (w : W),
  t_thissystem T = true -> invalid T a = false -> api_is_alloc a = false ->
  (forall h, In h (api_hooks a) -> present h = false) ->
  match api_len a with Some l => l <> 0 | None => True end ->
  a_rc (fst (run W os heap present T a w)) = (-1)%Z /\ s_errno (snd (run W os heap present T a w)) = ENOSYS /\
  s_trace (snd (run W os heap present T a w)) = [] /\ s_w (snd (run W os heap present T a w)) = w.
Proof. exact enosys_result. Qed.
Print Assumptions bind_enosys_without_hook.

Example enosys_nonvacuous :
  (* Linux has no thisproc membind hook: PROCESS => ENOSYS; without PROCESS/THREAD the call falls back to the thread hook *)
  let present h := linux_present h in
  a_rc (fst (run unit os_ok heap_ok present T_ex (A_set_membind (bs_of_N 1) HWLOC_MEMBIND_BIND (HWLOC_MEMBIND_PROCESS + HWLOC_MEMBIND_BYNODESET)) tt)) = (-1)%Z /\
  s_errno (snd (run unit os_ok heap_ok present T_ex (A_set_membind (bs_of_N 1) HWLOC_MEMBIND_BIND (HWLOC_MEMBIND_PROCESS + HWLOC_MEMBIND_BYNODESET)) tt)) = ENOSYS /\
  List.length (s_trace (snd (run unit os_ok heap_ok present T_ex (A_set_membind (bs_of_N 1) HWLOC_MEMBIND_BIND HWLOC_MEMBIND_BYNODESET) tt))) = 1%nat.
Proof. vm_compute. auto. Qed.

(* PROCESS->THREAD fallback reads errno: a process hook failing with ENOSYS hands over to the thread hook, any other failure is final *)
Example fallback_on_enosys_only :
  let os_e (e : err) : hcall -> unit -> hres * unit :=
    fun c w => match hc_id c with H_set_thisproc_cpubind => (HR (-1) (Some e) bs_empty 0, w) | _ => (HR 0 None bs_empty 0, w) end in
  List.length (s_trace (snd (run unit (os_e ENOSYS) heap_ok all_present T_ex (A_set_cpubind (bs_of_N 1) 0) tt))) = 2%nat /\
  a_rc (fst (run unit (os_e ENOSYS) heap_ok all_present T_ex (A_set_cpubind (bs_of_N 1) 0) tt)) = 0%Z /\
  List.length (s_trace (snd (run unit (os_e EPERM) heap_ok all_present T_ex (A_set_cpubind (bs_of_N 1) 0) tt))) = 1%nat /\
  a_rc (fst (run unit (os_e EPERM) heap_ok all_present T_ex (A_set_cpubind (bs_of_N 1) 0) tt)) = (-1)%Z.
Proof. vm_compute. auto. Qed.

(* ---- topologies that do not describe this system: dummy hooks ---- *)
Theorem dummy_hooks_total :
  forall W os heap present T (w : W),
  t_thissystem T = false ->
  (forall a, s_trace (snd (run W os heap present T a w)) = [] /\ s_w (snd (run W os heap present T a w)) = w) /\
  (forall a, invalid T a = false -> api_is_alloc a = false -> api_set a <> None -> a_rc (fst (run W os heap present T a w)) = 0%Z) /\
  (forall a, bad_flags a = false -> api_set a = None -> match api_len a with Some l => l <> 0 | None => True end ->
     a_rc (fst (run W os heap present T a w)) = 0%Z /\ a_set (fst (run W os heap present T a w)) = Some (whole_machine T a) /\
     match a with A_get_membind _ | A_get_proc_membind _ _ | A_get_area_membind _ _ => a_policy (fst (run W os heap present T a w)) = Some HWLOC_MEMBIND_MIXED | _ => True end).
Proof.
  intros W os heap present T w H. split; [|split].
  - intros a. now apply dummy_untouched.
  - intros a. now apply dummy_set_result.
  - intros a. now apply dummy_get_result.
Qed.
Print Assumptions dummy_hooks_total.

Example dummy_nonvacuous :
  let T := TP (bs_of_N 0x0f) (bs_of_N 0xff) (bs_of_N 1) (bs_of_N 3) [(0, bs_of_N 0x0f); (1, bs_of_N 0xf0)] false in
  let os_bad : hcall -> unit -> hres * unit := fun _ w => (HR (-1) (Some EPERM) bs_full 7, w) in
  a_set (fst (run unit os_bad heap_ok (fun _ => false) T (A_get_cpubind 0) tt)) = Some (bs_of_N 0xff) /\
  a_set (fst (run unit os_bad heap_ok (fun _ => false) T (A_get_membind 0) tt)) = Some (bs_of_N 0xff) /\
  a_rc (fst (run unit os_bad heap_ok (fun _ => false) T (A_set_cpubind (bs_of_N 2) 0) tt)) = 0%Z.
Proof. vm_compute. auto. Qed.

(* which topologies get the dummy hooks: hwloc_backends_is_thissystem *)
Theorem foreign_topology_not_thissystem :
  forall backends, (exists b, In b backends /\ bk_is_thissystem b <> (-1)%Z) -> backends_is_thissystem backends false None = false.
Proof. exact foreign_backend_not_thissystem. Qed.
Print Assumptions foreign_topology_not_thissystem.
Theorem is_thissystem_flag_and_env :
  (forall backends, (forall b, In b backends -> bk_envvar_forced b = false) -> backends_is_thissystem backends true None = true) /\
  (forall backends fl v, backends_is_thissystem backends fl (Some v) = negb (v =? 0)%Z).
Proof. split; [exact flag_makes_thissystem|exact env_overrides_thissystem]. Qed.
Print Assumptions is_thissystem_flag_and_env.
(* hook selection is a function of the LAST load's (backends, flag, HWLOC_THISSYSTEM) only: whatever loads were
   attempted before on the same handle (they must have failed, or the handle could not be loaded again), with
   whatever configuration, the bit hwloc_set_binding_hooks reads is what a fresh handle would get *)
Theorem hook_selection_independent_of_earlier_loads :
  forall history c, thissystem_after (history ++ [c]) = thissystem_after [c].
Proof. intros history c. rewrite (thissystem_last_load_only history c). symmetry. exact (thissystem_last_load_only [] c). Qed.
Print Assumptions hook_selection_independent_of_earlier_loads.
Example reuse_nonvacuous :
  (* a failed XML load (clears the bit), then XML + IS_THISSYSTEM on the same handle: this system again *)
  thissystem_after [LC [BK false 0] false None; LC [BK false 0] true None] = true /\
  thissystem_after [LC [BK false 0] false None] = false /\
  thissystem_after [LC [BK false 0] true None; LC [BK false 0] false None; LC [BK false (-1)] false None] = true.
Proof. vm_compute. auto. Qed.

(* a duplicate (of a duplicate ...) or an adopted copy behaves as its source: same hooks, same answers, same
   hook trace, for every call, every OS and every hook configuration - in particular the derivation of a
   topology that is not this system still has the dummy hooks (dummy_hooks_total applies to it) *)
Theorem dup_preserves_hook_selection :
  forall W os heap present T ds a (w : W),
  run W os heap present (fold_left derive ds T) a w = run W os heap present T a w /\
  t_thissystem (fold_left derive ds T) = t_thissystem T /\
  (forall h, installed present (fold_left derive ds T) h = installed present T h).
Proof. intros. rewrite derive_id. auto. Qed.
Print Assumptions dup_preserves_hook_selection.
Example dup_nonvacuous :
  (* a foreign topology, duplicated twice: still nothing reaches the OS and get_cpubind reports the complete set;
     a duplication that re-selected hooks on a fresh state would call the OS *)
  let T := TP (bs_of_N 0x0f) (bs_of_N 0xff) (bs_of_N 1) (bs_of_N 3) [(0, bs_of_N 0x0f); (1, bs_of_N 0xf0)] false in
  s_trace (snd (run unit os_ok heap_ok all_present (fold_left derive [D_dup; D_dup; D_adopt] T) (A_set_cpubind (bs_of_N 2) HWLOC_CPUBIND_THREAD) tt)) = [] /\
  a_set (fst (run unit os_ok heap_ok all_present (fold_left derive [D_dup; D_dup] T) (A_get_cpubind 0) tt)) = Some (bs_of_N 0xff) /\
  List.length (s_trace (snd (run unit os_ok heap_ok all_present (topo_dup_reselecting T) (A_set_cpubind (bs_of_N 2) HWLOC_CPUBIND_THREAD) tt))) = 1%nat.
Proof. vm_compute. auto. Qed.

Example xml_backend_is_foreign : backends_is_thissystem [BK false 0] false None = false /\ backends_is_thissystem [BK false 0] true None = true.
Proof. vm_compute. auto. Qed.

(* ---- hwloc_get_last_cpu_location reads /proc/<tid>/stat: the task name (settable by the task itself with
   prctl(PR_SET_NAME), may contain ')' ' ' '(' and digits) never shifts the field that is read ---- *)
Theorem last_cpu_location_stat_ignores_task_name :
  forall pre name rest,
  ~ In 41%N rest -> ~ In 0%N (pre ++ 40 :: name ++ 41 :: rest) -> (List.length (pre ++ 40%N :: name ++ 41%N :: rest) <= 1023)%nat ->
  parse_stat (pre ++ 40 :: name ++ 41 :: rest) = match skip_fields 36 (tl rest) with Some f => scan_int f | None => None end.
Proof. exact parse_stat_ignores_name. Qed.
Print Assumptions last_cpu_location_stat_ignores_task_name.
Example stat_nonvacuous :
  (* "7 (w) k) S 1 2 ... 36 fields ... 17 5 0": name "w) k", exit_signal 17, processor 5 *)
  let fields := [83] ++ flat_map (fun _ => [32; 49]) (seq 0 34) ++ [32; 49; 55; 32; 53; 32; 48; 10] in
  parse_stat ([55; 32] ++ 40 :: [119; 41; 32; 107] ++ 41 :: 32 :: fields) = Some 5%Z /\
  parse_stat ([55; 32] ++ 40 :: [] ++ 41 :: 32 :: fields) = Some 5%Z.
Proof. vm_compute. auto. Qed.

(* ---- x86 discovery restores the binding (against an idealised affinity model; the real kernel is observed live) ----
   The binding that is queried, saved and restored is the calling THREAD's (x86_query_thisthread); restrict_set,
   present with RESTRICT_TO_CPUBINDING, is the PROCESS binding and only selects which PUs are visited.  For every
   set of allowed CPUs, every number of processors, with and without the flag, and WHATEVER the other threads of
   the process are bound to, the calling thread ends on the affinity it started with. *)
Theorem x86_restores_binding :
  forall allowed restrict_to_cpubinding nbprocs thread others,
  bs_subset thread allowed = true -> bs_is_empty thread = false ->
  fst (x86_look allowed restrict_to_cpubinding nbprocs thread others) = thread.
Proof. exact x86_restores. Qed.
Print Assumptions x86_restores_binding.
(* why the hypothesis names the thread binding: a backend that reuses the process binding as "original"
   leaves the calling thread on the union of all threads' bindings *)
Theorem x86_saving_process_binding_would_not_restore :
  exists allowed nbprocs thread others,
  bs_subset thread allowed = true /\ bs_is_empty thread = false /\
  fst (x86_look_saving_proc allowed nbprocs thread others) <> thread.
Proof. exists (bs_of_N 0xffff), 16%nat, (bs_of_N 8), (bs_of_N 0xffff). vm_compute. repeat split; discriminate. Qed.
Print Assumptions x86_saving_process_binding_would_not_restore.
Example x86_nonvacuous :
  (* worker thread on PU 3, main thread on 0-15, RESTRICT_TO_CPUBINDING: 16 PUs visited, thread back on PU 3 *)
  x86_look (bs_of_N 0xffff) true 16 (bs_of_N 8) (bs_of_N 0xffff) = (bs_of_N 8, [0;1;2;3;4;5;6;7;8;9;10;11;12;13;14;15]) /\
  x86_look (bs_of_N 0xf0) false 8 (bs_of_N 0x30) bs_empty = (bs_of_N 0x30, [4; 5; 6; 7]).
Proof. vm_compute. auto. Qed.

(* ---- the Linux hooks (topology-linux.c) between bind.c and the kernel ----
   Called with a legal set - all that bind.c ever passes them (bind_only_legal_sets_reach_os) - every
   set-like Linux hook hands only non-empty masks inside the complete set to sched_setaffinity,
   set_mempolicy, mbind and (as destination) migrate_pages: for EVERY kernel behaviour, both states of the
   MPOL_PREFERRED_MANY probe, every task list /proc reports (retries included), all policies and flags.
   Hypothesis: the complete nodeset is finite (it is for every loaded topology). *)
Theorem linux_hooks_hand_only_legal_masks_to_kernel :
  forall KW kernel T (w : lw KW),
  inf (t_cnodeset T) = false -> kinv KW T w ->
  (forall tid set, bs_is_empty set = false -> bs_subset set (t_ccpuset T) = true ->
     kinv KW T (snd (set_tid_cpubind KW kernel tid set w)) /\ kinv KW T (snd (set_pid_cpubind KW kernel tid set w))) /\
  (forall len ns p f, bs_is_empty ns = false -> bs_subset ns (t_cnodeset T) = true ->
     kinv KW T (snd (linux_set_thisthread_membind KW kernel T ns p f w)) /\
     kinv KW T (snd (linux_set_area_membind KW kernel T len ns p f w)) /\
     kinv KW T (snd (linux_alloc_membind KW kernel T len ns p f w))).
Proof.
  intros KW kernel T w Hf Hw. split.
  - intros tid set He Hs. split; [now apply keeps_set_tid|now apply keeps_set_pid].
  - intros len ns p f He Hs. repeat split;
    [now apply keeps_set_thisthread_membind|now apply keeps_set_area_membind|now apply keeps_alloc_membind].
Qed.
Print Assumptions linux_hooks_hand_only_legal_masks_to_kernel.

Example linux_masks_nonvacuous :
  (* BIND|MIGRATE of nodes {0,1} on an 8-node machine, kernel without MPOL_PREFERRED_MANY: migrate_pages, the
     rejected set_mempolicy(PREFERRED_MANY) and the MPOL_PREFERRED retry all carry mask {0,1}; the migrate_pages
     SOURCE mask is every node below max_os_index (fix 64f3633) *)
  let T := TP (bs_of_N 0xff) (bs_of_N 0xff) (bs_of_N 0xff) (bs_of_N 0xff) [] true in
  let kernel (c : kcall) (k : unit) :=
    (match c with K_set_mempolicy 5 _ _ => KR (-1) EINVAL bs_empty 0 [] | _ => KR 0 E0 bs_empty 0 [] end, k) in
  l_ktrace (snd (linux_set_thisthread_membind unit kernel T (bs_of_N 3) HWLOC_MEMBIND_BIND HWLOC_MEMBIND_MIGRATE (LW tt (-1) (-1) [])))
  = [K_migrate_pages 65 (bs_of_N 0xffffffffffffffff) (bs_of_N 3); K_set_mempolicy 5 (Some (bs_of_N 3)) 65; K_set_mempolicy 1 (Some (bs_of_N 3)) 65]
  /\ l_pm_thread (snd (linux_set_thisthread_membind unit kernel T (bs_of_N 3) HWLOC_MEMBIND_BIND HWLOC_MEMBIND_MIGRATE (LW tt (-1) (-1) []))) = 1%Z.
Proof. vm_compute. auto. Qed.

(* ---- the composition: every bind.c entry point over the Linux hooks over ANY kernel ----
   whatever the arguments (all sets, flag words, policies), whatever the kernel answers, every mask that
   reaches sched_setaffinity / set_mempolicy / mbind / migrate_pages(destination) is non-empty and inside
   the complete cpuset / nodeset. *)
Theorem linux_only_legal_masks_reach_kernel :
  forall KW kernel T tpid nr_cpus max_numnodes heap a (w : lw KW),
  inf (t_cnodeset T) = false -> kinv KW T w ->
  kinv KW T (s_w (snd (linux_run KW kernel T tpid nr_cpus max_numnodes heap a w))).
Proof. exact linux_run_kernel_masks_legal. Qed.
Print Assumptions linux_only_legal_masks_reach_kernel.

Example linux_composed_nonvacuous :
  (* complete cpuset 0xff, topology cpuset 0x0f: binding the thread to 0x1f reaches sched_setaffinity as 0xff *)
  let kernel (c : kcall) (k : unit) := (KR 0 E0 bs_empty 0 [1%Z], k) in
  l_ktrace (s_w (snd (linux_run unit kernel T_ex 0 256 64 heap_ok (A_set_cpubind (bs_of_N 0x1f) HWLOC_CPUBIND_THREAD) (LW tt (-1) (-1) []))))
  = [K_setaffinity 0 (bs_of_N 0xff)] /\ inf (t_cnodeset T_ex) = false.
Proof. vm_compute. auto. Qed.

(* ---- hwloc_linux_get_area_membind (after fix 425f248): the reported nodeset is the topology nodeset as soon
   as one page is DEFAULT/LOCAL, otherwise EXACTLY the union of the masks the kernel returned for the pages
   (restricted to max_numnodes bits): no stale bits, for every kernel, every max_numnodes, every length ---- *)
Theorem linux_get_area_membind_reports_union :
  forall KW kernel T max_numnodes len (w : lw KW),
  hr_rc (fst (linux_get_area_membind KW kernel T max_numnodes len w)) = 0%Z ->
  hr_set (fst (linux_get_area_membind KW kernel T max_numnodes len w)) =
    (if existsb (answer_local max_numnodes) (page_answers KW kernel max_numnodes (pages_of len) (l_k w)) then t_nodeset T
     else fold_left bs_union (map (answer_mask max_numnodes) (page_answers KW kernel max_numnodes (pages_of len) (l_k w))) bs_empty).
Proof. exact get_area_membind_reports. Qed.
Print Assumptions linux_get_area_membind_reports_union.

Example get_area_membind_nonvacuous :
  (* kernel wanting 128 mask bits, two pages bound to {0} and {0}: the answer is {0}, nothing above bit 63 *)
  let T := TP (bs_of_N 3) (bs_of_N 3) (bs_of_N 3) (bs_of_N 3) [] true in
  let kernel (c : kcall) (k : unit) := (KR 0 E0 (bs_of_N 1) (Z.of_N MPOL_BIND) [], k) in
  hr_set (fst (linux_get_area_membind unit kernel T 128 8192 (LW tt (-1) (-1) []))) = bs_of_N 1 /\
  hr_rc (fst (linux_get_area_membind unit kernel T 128 8192 (LW tt (-1) (-1) []))) = 0%Z.
Proof. vm_compute. auto. Qed.
