(* C08 - property theorems only (DESIGN.md 6.C08).
   Model and executable statement: Topo/Restrict.v.  Proofs: Topo/RestrictProofs.v.
   The theorems speak about restrict_prune (argument checks, dropped sets, the
   recursion restrict_object_by_cpuset/_by_nodeset with removal, ADAPT flags and
   reordering) for ALL trees, sets and flag words; the KEEP_STRUCTURE level merge
   and propagate_total_memory that follow (restrict_topo) are modelled and tied to
   the C code by differential execution, they are outside these theorems except
   where stated (EINVAL). *)
From Coq Require Import List NArith ZArith Bool.
From HV Require Import Base.BSet Gen.Tables Text.TypeOrder Topo.Dump Topo.WFCheck Topo.Obj Topo.Restrict Topo.RestrictProofs.
Import ListNotations.
Local Open Scope N_scope.

(* All 32 words over the five flags: valid iff neither BYNODESET+REMOVE_CPULESS nor
   REMOVE_MEMLESS without BYNODESET (re-proved against the flag values of the current source). *)
Theorem restrict_flags_valid_32 :
  forallb (fun f => Bool.eqb (flags_valid f)
                      (negb (hasf f HWLOC_RESTRICT_FLAG_BYNODESET && hasf f HWLOC_RESTRICT_FLAG_REMOVE_CPULESS) &&
                       negb (negb (hasf f HWLOC_RESTRICT_FLAG_BYNODESET) && hasf f HWLOC_RESTRICT_FLAG_REMOVE_MEMLESS)))
          (map N.of_nat (seq 0 32)) = true.
Proof. exact flags_valid_32. Qed.
Print Assumptions restrict_flags_valid_32.

Theorem restrict_flags_unknown_bit : forall f, N.ldiff f RESTRICT_ALL <> 0 -> flags_valid f = false.
Proof. exact flags_valid_unknown_bit. Qed.
Print Assumptions restrict_flags_unknown_bit.

(* EINVAL exactly when: invalid flag word, S misses the allowed set, or everything of the
   other resource would be dropped; for every topology, set and flag word (incl. the merge phase). *)
Theorem restrict_einval_iff : forall filters dm t S flags,
  restrict_topo filters dm t S flags = Einval <->
  (flags_valid flags = false \/
   (hasf flags HWLOC_RESTRICT_FLAG_BYNODESET = true /\
    (bs_intersects S (tp_anode t) = false \/
     (hasf flags HWLOC_RESTRICT_FLAG_REMOVE_MEMLESS = true /\ bs_subset (tp_acpu t) (memless_pus (tp_root t) (bs_compl S)) = true))) \/
   (hasf flags HWLOC_RESTRICT_FLAG_BYNODESET = false /\
    (bs_intersects S (tp_acpu t) = false \/
     (hasf flags HWLOC_RESTRICT_FLAG_REMOVE_CPULESS = true /\ bs_subset (tp_anode t) (cpuless_nodes (tp_root t) (bs_compl S)) = true)))).
Proof. intros. rewrite restrict_topo_einval_iff. apply restrict_params_none_iff. Qed.
Print Assumptions restrict_einval_iff.

(* "observably unchanged" as evaluated on the C output: a clean einval_identity verdict means the
   two dumps are equal on every field (the model itself returns no topology on EINVAL). *)
Theorem restrict_einval_identity : forall before after, einval_identity before after = [] -> before = after.
Proof. exact einval_identity_sound. Qed.
Print Assumptions restrict_einval_identity.

(* Root and allowed sets = old ∩ S (by cpuset; nodesets untouched without REMOVE_CPULESS). *)
Theorem restrict_root_sets : forall t S flags t',
  restrict_prune t S flags = Done t' -> hasf flags HWLOC_RESTRICT_FLAG_BYNODESET = false ->
  sets_ok (odata (tp_root t)) ->
  o_cs (odata (tp_root t')) = ointer (o_cs (odata (tp_root t))) S /\
  o_ccs (odata (tp_root t')) = ointer (o_ccs (odata (tp_root t))) S /\
  tp_acpu t' = bs_inter (tp_acpu t) S /\
  o_gp (odata (tp_root t')) = o_gp (odata (tp_root t)) /\
  (hasf flags HWLOC_RESTRICT_FLAG_REMOVE_CPULESS = false ->
   o_nds (odata (tp_root t')) = o_nds (odata (tp_root t)) /\ o_cnds (odata (tp_root t')) = o_cnds (odata (tp_root t)) /\
   tp_anode t' = tp_anode t).
Proof. exact prune_root_sets_bycpu. Qed.
Print Assumptions restrict_root_sets.

Theorem restrict_root_sets_bynodeset : forall t S flags t',
  restrict_prune t S flags = Done t' -> hasf flags HWLOC_RESTRICT_FLAG_BYNODESET = true ->
  sets_ok (odata (tp_root t)) ->
  o_nds (odata (tp_root t')) = ointer (o_nds (odata (tp_root t))) S /\
  o_cnds (odata (tp_root t')) = ointer (o_cnds (odata (tp_root t))) S /\
  tp_anode t' = bs_inter (tp_anode t) S /\
  o_gp (odata (tp_root t')) = o_gp (odata (tp_root t)) /\
  (hasf flags HWLOC_RESTRICT_FLAG_REMOVE_MEMLESS = false ->
   o_cs (odata (tp_root t')) = o_cs (odata (tp_root t)) /\ o_ccs (odata (tp_root t')) = o_ccs (odata (tp_root t)) /\
   tp_acpu t' = tp_acpu t).
Proof. exact prune_root_sets_bynode. Qed.
Print Assumptions restrict_root_sets_bynodeset.

(* Every object of the result (normal, memory, I/O, Misc, at any depth) is an old object: same
   payload (gp_index, type, os_index, attributes ...), its four sets either untouched or cleared by
   the two guarded andnot blocks.  Whole tree, all parameters, no well-formedness hypothesis. *)
Theorem restrict_survivors : forall t S flags t',
  restrict_prune t S flags = Done t' ->
  exists P, restrict_params t S flags = Some P /\
            forall q, In q (flatten (tp_root t')) ->
                      exists q0, In q0 (flatten (tp_root t)) /\
                                 (odata q = odata q0 \/ odata q = fst (clear_sets P (odata q0))).
Proof. exact prune_survivors. Qed.
Print Assumptions restrict_survivors.

(* ... and for an object whose complete sets contain its sets, "cleared" = old minus dropped *)
Theorem restrict_survivor_sets : forall P d, sets_ok d ->
  let d' := fst (clear_sets P d) in
  o_cs d' = osdiff (o_cs d) (rp_dcs P) /\ o_ccs d' = osdiff (o_ccs d) (rp_dcs P) /\
  o_nds d' = osdiff (o_nds d) (rp_dns P) /\ o_cnds d' = osdiff (o_cnds d) (rp_dns P).
Proof. exact clear_sets_spec. Qed.
Print Assumptions restrict_survivor_sets.

(* The survivor map is injective: no object is duplicated (ids stay distinct), whole tree, all parameters. *)
Theorem restrict_survivors_injective : forall t S flags t',
  restrict_prune t S flags = Done t' ->
  NoDup (map oid (flatten (tp_root t))) -> NoDup (map oid (flatten (tp_root t'))).
Proof. exact prune_nodup. Qed.
Print Assumptions restrict_survivors_injective.

(* Restrict by cpuset: the PUs afterwards are exactly the old PUs with os_index in S (no PU outside S is
   left, every PU inside S is still there with the same id / os_index), for every tree whose PUs are leaves
   with cpuset = complete cpuset = {os_index} and whose complete cpusets decrease along normal children
   (clauses of C01's WF), every S and every flag word without BYNODESET.
   (By nodeset with REMOVE_MEMLESS: decided on the C outputs by restrict_spec_check only.) *)
Theorem restrict_pus : forall t S flags t',
  restrict_prune t S flags = Done t' -> hasf flags HWLOC_RESTRICT_FLAG_BYNODESET = false ->
  tree_ok (tp_root t) ->
  (forall q, In q (nflatten (tp_root t')) -> otype q = HWLOC_OBJ_PU -> mem (o_os (odata q)) S = true) /\
  (forall p, In p (nflatten (tp_root t)) -> otype p = HWLOC_OBJ_PU -> mem (o_os (odata p)) S = true ->
             exists p', In p' (nflatten (tp_root t')) /\ oid p' = oid p /\ otype p' = HWLOC_OBJ_PU /\
                        o_os (odata p') = o_os (odata p)).
Proof. exact prune_pus_bycpu. Qed.
Print Assumptions restrict_pus.

(* The removal rule, whole tree, both flavours, all parameters.  [vanishes] states the rule on the OLD
   tree: an object reached by the recursion goes iff (its sets are changed by this restriction and all its
   normal and memory children go by the same rule, or it has no such child), its cleared cpuset (nodeset)
   is empty, and it is not a NUMA node (PU) unless REMOVE_CPULESS (REMOVE_MEMLESS). *)
Theorem restrict_removed_iff : forall P o, fst (fst (robj P o)) = None <-> (vanishes P o = true).
Proof. exact robj_vanishes. Qed.
Print Assumptions restrict_removed_iff.

(* ... and the normal and memory objects of the result are exactly [alive]: the objects that do not vanish
   and are reached through ancestors whose sets change and that do not vanish, plus the whole untouched
   subtree below an object whose sets do not change. *)
Theorem restrict_alive : forall t S flags t',
  restrict_prune t S flags = Done t' ->
  exists P, restrict_params t S flags = Some P /\
            forall k, In k (map oid (nmflatten (tp_root t'))) <-> In k (alive P (tp_root t)).
Proof. exact prune_alive. Qed.
Print Assumptions restrict_alive.

(* Misc and I/O children, one object: a kept object keeps all of them and hands nothing up; a
   removed one hands them to its parent exactly with the ADAPT flag of their kind, else drops them. *)
Theorem restrict_special_children_partial : forall P o,
  (forall o' io mx, robj P o = (Some o', io, mx) ->
     io = [] /\ mx = [] /\ incl (oich o) (oich o') /\ incl (oxch o) (oxch o')) /\
  (forall io mx, robj P o = (None, io, mx) ->
     (rp_io P = false -> io = []) /\ (rp_misc P = false -> mx = []) /\
     (rp_io P = true -> incl (oich o) io) /\ (rp_misc P = true -> incl (oxch o) mx)).
Proof. intros P o. split; [exact (robj_special_kept P o)|exact (robj_special_removed P o)]. Qed.
Print Assumptions restrict_special_children_partial.

(* restrict S then S' = restrict S ∩ S' on the root and allowed cpusets (objects: by correspondence) *)
Theorem restrict_twice_partial : forall t S S' fl fl' t1 t2 t12,
  hasf fl HWLOC_RESTRICT_FLAG_BYNODESET = false -> hasf fl' HWLOC_RESTRICT_FLAG_BYNODESET = false ->
  sets_ok (odata (tp_root t)) ->
  restrict_prune t S fl = Done t1 -> restrict_prune t1 S' fl' = Done t2 ->
  restrict_prune t (bs_inter S S') fl = Done t12 ->
  o_cs (odata (tp_root t2)) = o_cs (odata (tp_root t12)) /\
  o_ccs (odata (tp_root t2)) = o_ccs (odata (tp_root t12)) /\
  tp_acpu t2 = tp_acpu t12.
Proof. exact prune_twice_bycpu. Qed.
Print Assumptions restrict_twice_partial.

(* Soundness of the executable statement w.r.t. its Prop reading, set clauses. *)
Theorem spec_check_sets_sound : forall before after S flags o o',
  check_old_obj before after S flags o = [] -> find_gp after (gpN o) = Some o' ->
  let dd := spec_dropped before S flags in
  o_type o' = o_type o /\ o_os o' = o_os o /\
  o_cs o' = odiff (o_cs o) (fst dd) /\ o_ccs o' = odiff (o_ccs o) (fst dd) /\
  o_nds o' = odiff (o_nds o) (snd dd) /\ o_cnds o' = odiff (o_cnds o) (snd dd).
Proof. exact check_old_obj_sets_sound. Qed.
Print Assumptions spec_check_sets_sound.

Theorem spec_check_root_sound : forall before after S flags r r',
  check_topology_level before after S flags = [] -> hasf flags HWLOC_RESTRICT_FLAG_BYNODESET = false ->
  get before 0 = Some r -> get after 0 = Some r' ->
  o_cs r' = ointer (o_cs r) S /\ o_ccs r' = ointer (o_ccs r) S /\ t_acpu after = ointer (t_acpu before) S.
Proof. exact check_topology_level_sound_bycpu. Qed.
Print Assumptions spec_check_root_sound.

(* hwloc_set_group_depth at the end of the restrict (fix f97426a), as modelled by set_group_depths: the
   renumbered tree holds the same objects, only attr->group.depth of the objects listed in the table of
   (Group id, rank of its Group level) changes; special subtrees are untouched.  (That the table built from
   levels_of gives the k-th Group level the depth k is stated executably by group_depths_check and evaluated on
   every C output and, through the correspondence, on every model output; it is not proved.) *)
Theorem restrict_group_depths_objs : forall tbl o q, In q (nflatten (regroup_tree tbl o)) ->
  exists q0, In q0 (nflatten o) /\ omch q = omch q0 /\ oich q = oich q0 /\ oxch q = oxch q0 /\
             odata q = match assocN (oid q0) tbl with Some g => set_gdepth (odata q0) g | None => odata q0 end.
Proof. exact regroup_tree_objs. Qed.
Print Assumptions restrict_group_depths_objs.

(* ---------------- non-vacuity: a concrete tree ----------------
   Machine{ Package0{NUMA0, PU0{Misc "a"}, PU1, Bridge}, Package1{NUMA1, PU2{Misc "b"}, Bridge{PCI}}, Group{NUMA2 (CPU-less)} } *)
Definition mkd (id ty os : N) (cs nds : option bset) : dobj :=
  mkDobj id ty 0%Z os (Some (id + 100)) PNull PNull PNull PNull PNull PNull PNull 0 0 0 0 0 0 None [] [] [] []
         cs cs nds nds 0 0 (-1)%Z (-1)%Z (-1)%Z (-1)%Z (-1)%Z (-1)%Z (-1)%Z.
Definition sN (n : N) : option bset := Some (bs_of_N n).
Definition leaf (d : dobj) : obj := Obj d [] [] [] [].
Definition ex_tree : obj :=
  Obj (mkd 0 HWLOC_OBJ_MACHINE 0 (sN 7) (sN 7))
    [ Obj (mkd 1 HWLOC_OBJ_PACKAGE 0 (sN 3) (sN 1))
          [ Obj (mkd 3 HWLOC_OBJ_PU 0 (sN 1) (sN 1)) [] [] [] [leaf (mkd 4 HWLOC_OBJ_MISC 0 None None)];
            leaf (mkd 5 HWLOC_OBJ_PU 1 (sN 2) (sN 1)) ]
          [ leaf (mkd 2 HWLOC_OBJ_NUMANODE 0 (sN 3) (sN 1)) ]
          [ leaf (mkd 6 HWLOC_OBJ_BRIDGE 0 None None) ] [];
      Obj (mkd 7 HWLOC_OBJ_PACKAGE 1 (sN 4) (sN 2))
          [ Obj (mkd 9 HWLOC_OBJ_PU 2 (sN 4) (sN 2)) [] [] [] [leaf (mkd 10 HWLOC_OBJ_MISC 0 None None)] ]
          [ leaf (mkd 8 HWLOC_OBJ_NUMANODE 1 (sN 4) (sN 2)) ]
          [ Obj (mkd 11 HWLOC_OBJ_BRIDGE 0 None None) [] [] [leaf (mkd 12 HWLOC_OBJ_PCI_DEVICE 0 None None)] [] ] [];
      Obj (mkd 13 HWLOC_OBJ_GROUP 0 (sN 0) (sN 4)) [] [ leaf (mkd 14 HWLOC_OBJ_NUMANODE 2 (sN 0) (sN 4)) ] [] [] ]
    [] [] [].
Definition ex_topo : topo := mkTopo ex_tree (bs_of_N 7) (bs_of_N 7).
Definition ids_of (o : outcome) : list N := match o with Done t => map oid (flatten (tp_root t)) | _ => [] end.

Example ex_sets_ok : sets_ok (odata ex_tree).
Proof. split; vm_compute; reflexivity. Qed.

(* S = {0,1}, no flag: Package1 loses its PU and the Misc below that PU, but stays with its I/O (NUMA1 is below it); the CPU-less Group stays;
   hwloc__reorder_children enqueues the two children with an empty cpuset in reverse order (Group before Package1) *)
Example ex_restrict_noflag :
  ids_of (restrict_prune ex_topo (bs_of_N 3) 0) = [0; 1; 3; 4; 5; 2; 6; 13; 14; 7; 8; 11; 12].
Proof. vm_compute. reflexivity. Qed.

(* REMOVE_CPULESS: NUMA1, NUMA2, Package1 and the Group go, and so do the Misc, Bridge and PCI device below them *)
Example ex_restrict_cpuless :
  ids_of (restrict_prune ex_topo (bs_of_N 3) HWLOC_RESTRICT_FLAG_REMOVE_CPULESS) = [0; 1; 3; 4; 5; 2; 6].
Proof. vm_compute. reflexivity. Qed.

(* REMOVE_CPULESS|ADAPT_MISC|ADAPT_IO: Misc 10 and Bridge 11 (with its PCI device 12) are re-attached to the Machine *)
Example ex_restrict_adapt :
  match restrict_prune ex_topo (bs_of_N 3) 7 with
  | Done t => (map oid (oich (tp_root t)), map oid (oxch (tp_root t)), map oid (flatten (tp_root t)),
               o_nds (odata (tp_root t)), tp_anode t)
  | _ => ([], [], [], None, bs_empty)
  end = ([11], [10], [0; 1; 3; 4; 5; 2; 6; 11; 12; 10], sN 1, bs_of_N 1).
Proof. vm_compute. reflexivity. Qed.

(* EINVAL: S disjoint from the allowed set; REMOVE_CPULESS with BYNODESET; restrict to the CPU-less node only with REMOVE_MEMLESS *)
Example ex_restrict_einval :
  restrict_prune ex_topo (bs_of_N 8) 0 = Einval /\ restrict_prune ex_topo (bs_of_N 1) 9 = Einval /\
  restrict_prune ex_topo (bs_of_N 4) 24 = Einval /\ ids_of (restrict_prune ex_topo (bs_of_N 4) 8) <> [].
Proof. vm_compute. repeat split; discriminate. Qed.

(* the hypotheses of restrict_twice_partial are met by concrete values *)
Example ex_restrict_twice :
  exists t1 t2 t12, restrict_prune ex_topo (bs_of_N 3) 0 = Done t1 /\ restrict_prune t1 (bs_of_N 5) 1 = Done t2 /\
                    restrict_prune ex_topo (bs_inter (bs_of_N 3) (bs_of_N 5)) 0 = Done t12 /\
                    o_cs (odata (tp_root t2)) = sN 1.
Proof. vm_compute. eexists. eexists. eexists. repeat split. Qed.

(* hypotheses of restrict_pus and restrict_survivors_injective on the concrete tree *)
Example ex_tree_ok : tree_ok ex_tree.
Proof.
  intros q Hq. unfold ex_tree in Hq. cbn in Hq.
  repeat (destruct Hq as [<-|Hq];
          [split; [intros Hpu; try (vm_compute in Hpu; discriminate Hpu); repeat split; reflexivity
                  |cbn; intros c Hc; repeat (destruct Hc as [<-|Hc]; [vm_compute; reflexivity|]); contradiction]|]).
  contradiction.
Qed.

Example ex_ids_nodup : NoDup (map oid (flatten ex_tree)).
Proof.
  vm_compute. repeat (constructor; [intros H; repeat (destruct H as [H|H]; [discriminate H|]); contradiction|]). constructor.
Qed.

(* PUs 0 and 1 (ids 3, 5) stay, PU 2 (id 9) goes *)
Example ex_restrict_pus :
  match restrict_prune ex_topo (bs_of_N 3) 0 with
  | Done t => map (fun q => (oid q, o_os (odata q))) (pu_objs (tp_root t))
  | _ => []
  end = [(3, 0); (5, 1)].
Proof. vm_compute. reflexivity. Qed.

(* the removal rule on the old tree: with REMOVE_CPULESS Package1 (7), its NUMA node (8) and PU (9), the Group (13)
   and its NUMA node (14) vanish; without it only PU 2 does *)
Example ex_alive :
  match restrict_params ex_topo (bs_of_N 3) 1, restrict_params ex_topo (bs_of_N 3) 0 with
  | Some P1, Some P0 => (alive P1 ex_tree, alive P0 ex_tree)
  | _, _ => ([], [])
  end = ([0; 1; 3; 5; 2], [0; 1; 3; 5; 2; 7; 8; 13; 14]).
Proof. vm_compute. reflexivity. Qed.

(* two Group levels (depths 0 and 1): restricting to the first outer Group makes the outer level redundant with
   the Machine; it is merged away and the remaining Group level is renumbered from 1 to 0 *)
Definition mkg (id : N) (gd : Z) (cs : N) : dobj :=
  mkDobj id HWLOC_OBJ_GROUP 0%Z 0 (Some (id + 100)) PNull PNull PNull PNull PNull PNull PNull 0 0 0 0 0 0 None [] [] [] []
         (sN cs) (sN cs) (sN 1) (sN 1) 0 0 (-1)%Z (-1)%Z gd 0%Z 0%Z (-1)%Z (-1)%Z.
Definition pu (id os : N) : obj := leaf (mkd id HWLOC_OBJ_PU os (sN (2 ^ os)) (sN 1)).
Definition ex_groups : obj :=
  Obj (mkd 0 HWLOC_OBJ_MACHINE 0 (sN 255) (sN 1))
    [ Obj (mkg 1 0 15) [ Obj (mkg 2 1 3) [pu 3 0; pu 4 1] [] [] []; Obj (mkg 5 1 12) [pu 6 2; pu 7 3] [] [] [] ] [] [] [];
      Obj (mkg 8 0 240) [ Obj (mkg 9 1 48) [pu 10 4; pu 11 5] [] [] []; Obj (mkg 12 1 192) [pu 13 6; pu 14 7] [] [] [] ] [] [] [] ]
    [ leaf (mkd 15 HWLOC_OBJ_NUMANODE 0 (sN 255) (sN 1)) ] [] [].
Definition kstruct_filters : list N := [0; 0; 0; 0; 0; 0; 0; 0; 0; 0; 0; 0; 0; 2; 0; 0; 0; 0; 0; 0].
Example ex_group_depths_renumbered :
  match restrict_topo kstruct_filters [] (mkTopo ex_groups (bs_of_N 255) (bs_of_N 1)) (bs_of_N 15) 0 with
  | Done t => map (fun q => (oid q, o_group_depth (odata q))) (filter (fun q => otype q =? HWLOC_OBJ_GROUP) (nflatten (tp_root t)))
  | _ => []
  end = [(2, 0%Z); (5, 0%Z)].
Proof. vm_compute. reflexivity. Qed.

