(* C08 - property theorems only (DESIGN.md 6.C08). *)
From Coq Require Import List NArith ZArith Bool.
From HV Require Import Base.BSet Gen.Tables Text.TypeOrder Topo.Dump Topo.WFCheck Topo.Obj Topo.Restrict Topo.RestrictProofs.
Import ListNotations.
Local Open Scope N_scope.

Theorem restrict_flags_valid_32 :
  forallb (fun f => Bool.eqb (flags_valid f)
                      (negb (hasf f HWLOC_RESTRICT_FLAG_BYNODESET && hasf f HWLOC_RESTRICT_FLAG_REMOVE_CPULESS) &&
                       negb (negb (hasf f HWLOC_RESTRICT_FLAG_BYNODESET) && hasf f HWLOC_RESTRICT_FLAG_REMOVE_MEMLESS)))
          (map N.of_nat (seq 0 32)) = true.
Proof. exact flags_valid_32. Qed.
Print Assumptions restrict_flags_valid_32.
