(* C03 - property theorems only (work in progress: filled in as lemmas land). *)
From Coq Require Import List NArith ZArith Bool Lia.
From HV Require Import Gen.Tables Base.BSet Bitmap.BitmapModel Bitmap.BitmapSpec.
Local Open Scope N_scope.

Theorem bits_per_long_is_64 : HWLOC_BITS_PER_LONG = BPL.
Proof. reflexivity. Qed.
Print Assumptions bits_per_long_is_64.
