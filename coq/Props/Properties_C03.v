(* C03 - property theorems only.
   "for all well-formed representations" = every value of the C struct that
   satisfies the invariant of bitmap.c (wf: 1 <= ulongs_count <= ulongs_allocated,
   ulongs_count <= 2^25-1, ulongs_count valid 64-bit words); [abs] maps a
   representation to the finite-or-cofinite set (Base/BSet.v) it denotes.
   Indexes are < 2^31-64 (IDXMAX) where stated. *)
From Coq Require Import List NArith ZArith Bool Lia.
From HV Require Import Gen.Tables Base.BSet Bitmap.BitmapModel Bitmap.BitmapSpec
  Bitmap.BitmapBase Bitmap.BitmapOps Bitmap.BitmapQueries Bitmap.BitmapScan Bitmap.BitmapCompare Bitmap.BitmapWeight Bitmap.BitmapRange Bitmap.BitmapSinglify Bitmap.BitmapNext Bitmap.BitmapInclusion Bitmap.BitmapLeaf.
Import ListNotations.
Local Open Scope N_scope.

(* the constants the model hardwires are those of the current source *)
Theorem bits_per_long_is_64 : HWLOC_BITS_PER_LONG = BPL.
Proof. reflexivity. Qed.
Print Assumptions bits_per_long_is_64.

(* non-vacuity: a 3-word infinite bitmap {1, 64.., } built by the model itself is well formed *)
Definition ex_inf3 : repr := R 3 8 [2; 18446744073709551615; 0] true.
Definition ex_fin2 : repr := R 2 8 [5; 1] false.
Example ex_inf3_wf : wf ex_inf3.
Proof. constructor; cbn; try (unfold MAXC; lia). repeat constructor. Qed.
Example ex_fin2_wf : wf ex_fin2.
Proof. constructor; cbn; try (unfold MAXC; lia). repeat constructor. Qed.
Example ex_inf3_reachable : bm_clr_range (bm_set (bm_set_range bm_alloc 64 (-1)) 1) 128 191 = ex_inf3.
Proof. vm_compute. reflexivity. Qed.

(* membership is read word-wise through HWLOC_SUBBITMAP_READULONG *)
Theorem mem_abs_words : forall r k, wf r -> mem k (abs r) = N.testbit (rd r (k / 64)) (k mod 64).
Proof. exact mem_abs. Qed.
Print Assumptions mem_abs_words.

(* two representations denote the same set iff all their (extended) words agree *)
Theorem abs_equal_iff_words : forall r1 r2, wf r1 -> wf r2 -> (abs r1 = abs r2 <-> forall i, rd r1 i = rd r2 i).
Proof. exact abs_eq_iff. Qed.
Print Assumptions abs_equal_iff_words.

(* ---- (1)+(2): modifiers preserve wf and commute with abs ---- *)
Theorem alloc_refines : wf bm_alloc /\ abs bm_alloc = bs_empty.
Proof. exact alloc_wf. Qed.
Theorem alloc_full_refines : wf bm_alloc_full /\ abs bm_alloc_full = bs_full.
Proof. exact alloc_full_wf. Qed.
Theorem or_refines : forall res r1 r2, wf res -> wf r1 -> wf r2 ->
  wf (bm_or res r1 r2) /\ abs (bm_or res r1 r2) = bs_union (abs r1) (abs r2).
Proof. exact bm_or_spec. Qed.
Print Assumptions or_refines.
Theorem and_refines : forall res r1 r2, wf res -> wf r1 -> wf r2 ->
  wf (bm_and res r1 r2) /\ abs (bm_and res r1 r2) = bs_inter (abs r1) (abs r2).
Proof. exact bm_and_spec. Qed.
Print Assumptions and_refines.
Theorem andnot_refines : forall res r1 r2, wf res -> wf r1 -> wf r2 ->
  wf (bm_andnot res r1 r2) /\ abs (bm_andnot res r1 r2) = bs_diff (abs r1) (abs r2).
Proof. exact bm_andnot_spec. Qed.
Print Assumptions andnot_refines.
Theorem xor_refines : forall res r1 r2, wf res -> wf r1 -> wf r2 ->
  wf (bm_xor res r1 r2) /\ abs (bm_xor res r1 r2) = bs_xor (abs r1) (abs r2).
Proof. exact bm_xor_spec. Qed.
Print Assumptions xor_refines.
Theorem not_refines : forall res r, wf res -> wf r ->
  wf (bm_not res r) /\ abs (bm_not res r) = bs_compl (abs r).
Proof. exact bm_not_spec. Qed.
Print Assumptions not_refines.
Theorem copy_refines : forall dst src, wf dst -> wf src -> wf (bm_copy dst src) /\ abs (bm_copy dst src) = abs src.
Proof. exact bm_copy_spec. Qed.
Print Assumptions copy_refines.
Theorem dup_refines : forall old, wf old -> wf (bm_dup old) /\ abs (bm_dup old) = abs old /\ bm_dup old = old.
Proof. exact bm_dup_spec. Qed.
Print Assumptions dup_refines.
Theorem zero_refines : forall r, wf r -> wf (bm_zero r) /\ abs (bm_zero r) = bs_empty.
Proof. exact bm_zero_spec. Qed.
Theorem fill_refines : forall r, wf r -> wf (bm_fill r) /\ abs (bm_fill r) = bs_full.
Proof. exact bm_fill_spec. Qed.
Print Assumptions fill_refines.
Theorem set_refines : forall r cpu, wf r -> cpu < IDXMAX -> wf (bm_set r cpu) /\ abs (bm_set r cpu) = bs_add cpu (abs r).
Proof. exact bm_set_spec. Qed.
Print Assumptions set_refines.
Theorem clr_refines : forall r cpu, wf r -> cpu < IDXMAX -> wf (bm_clr r cpu) /\ abs (bm_clr r cpu) = bs_remove cpu (abs r).
Proof. exact bm_clr_spec. Qed.
Print Assumptions clr_refines.
Theorem only_refines : forall r cpu, wf r -> cpu < IDXMAX -> wf (bm_only r cpu) /\ abs (bm_only r cpu) = bs_single cpu.
Proof. exact bm_only_spec. Qed.
Print Assumptions only_refines.
Theorem allbut_refines : forall r cpu, wf r -> cpu < IDXMAX ->
  wf (bm_allbut r cpu) /\ abs (bm_allbut r cpu) = bs_compl (bs_single cpu).
Proof. exact bm_allbut_spec. Qed.
Print Assumptions allbut_refines.
Theorem from_ulong_refines : forall r mask, wf r -> mask < U64 ->
  wf (bm_from_ulong r mask) /\ abs (bm_from_ulong r mask) = bs_of_N mask.
Proof. exact bm_from_ulong_spec. Qed.
Print Assumptions from_ulong_refines.
Theorem from_ith_ulong_refines : forall r i mask, wf r -> i < MAXC -> mask < U64 ->
  wf (bm_from_ith_ulong r i mask) /\ abs (bm_from_ith_ulong r i mask) = sp_from_ith i mask.
Proof. exact bm_from_ith_ulong_spec. Qed.
Print Assumptions from_ith_ulong_refines.
(* guard: nr >= 1 (nr = 0 is undefined behaviour in the C code as found, see known_findings.txt) *)
Theorem from_ulongs_refines : forall r nr masks, wf r -> 1 <= nr -> nr <= MAXC ->
  N.of_nat (length masks) = nr -> Forall (fun w => w < U64) masks ->
  wf (bm_from_ulongs r nr masks) /\ abs (bm_from_ulongs r nr masks) = sp_from_ulongs masks.
Proof. exact bm_from_ulongs_spec. Qed.
Print Assumptions from_ulongs_refines.
Example from_ulongs_nonvacuous : bm_from_ulongs ex_fin2 3 [1; 0; 7] = R 3 8 [1; 0; 7] false.
Proof. vm_compute. reflexivity. Qed.
Theorem set_ith_ulong_refines : forall r i mask, wf r -> i < MAXC -> mask < U64 ->
  wf (bm_set_ith_ulong r i mask) /\ abs (bm_set_ith_ulong r i mask) = sp_set_ith (abs r) i mask.
Proof. exact bm_set_ith_ulong_spec. Qed.
Print Assumptions set_ith_ulong_refines.

(* ---- (3): queries are functions of the abstract set ---- *)
Theorem isset_spec : forall r cpu, wf r -> bm_isset r cpu = sp_isset (abs r) cpu.
Proof. exact bm_isset_spec. Qed.
Print Assumptions isset_spec.
Theorem to_ith_ulong_spec : forall r i, wf r -> bm_to_ith_ulong r i = sp_word (abs r) i.
Proof. exact bm_to_ith_ulong_spec. Qed.
Theorem to_ulong_spec : forall r, wf r -> bm_to_ulong r = sp_word (abs r) 0.
Proof. exact bm_to_ulong_spec. Qed.
Theorem to_ulongs_spec : forall r nr, wf r -> bm_to_ulongs r nr = map (sp_word (abs r)) (range 0 nr).
Proof. exact bm_to_ulongs_spec. Qed.
Print Assumptions to_ulongs_spec.
Theorem isequal_spec : forall r1 r2, wf r1 -> wf r2 -> bm_isequal r1 r2 = sp_isequal (abs r1) (abs r2).
Proof. exact bm_isequal_spec. Qed.
Print Assumptions isequal_spec.
Theorem intersects_spec : forall r1 r2, wf r1 -> wf r2 -> bm_intersects r1 r2 = sp_intersects (abs r1) (abs r2).
Proof. exact bm_intersects_spec. Qed.
Print Assumptions intersects_spec.
Theorem isincluded_spec : forall sub super, wf sub -> wf super ->
  bm_isincluded sub super = sp_isincluded (abs sub) (abs super).
Proof. exact bm_isincluded_spec. Qed.
Print Assumptions isincluded_spec.

Theorem iszero_spec : forall r, wf r -> bm_iszero r = sp_iszero (abs r).
Proof. exact bm_iszero_spec. Qed.
Print Assumptions iszero_spec.
Theorem isfull_spec : forall r, wf r -> bm_isfull r = sp_isfull (abs r).
Proof. exact bm_isfull_spec. Qed.
Print Assumptions isfull_spec.
(* first/last: least / greatest member, -1 for the empty set (first), for the empty or an
   infinitely-set bitmap (last); *_unset: the same on the complement *)
Theorem first_spec : forall r, wf r -> bm_first r = sp_first (abs r).
Proof. exact bm_first_spec. Qed.
Print Assumptions first_spec.
Theorem first_unset_spec : forall r, wf r -> bm_first_unset r = sp_first_unset (abs r).
Proof. exact bm_first_unset_spec. Qed.
Print Assumptions first_unset_spec.
Theorem last_spec : forall r, wf r -> bm_last r = sp_last (abs r).
Proof. exact bm_last_spec. Qed.
Print Assumptions last_spec.
Theorem last_unset_spec : forall r, wf r -> bm_last_unset r = sp_last_unset (abs r).
Proof. exact bm_last_unset_spec. Qed.
Print Assumptions last_unset_spec.
(* what sp_first / sp_last mean *)
Theorem first_is_least : forall s k, bs_first s = Some k <-> (mem k s = true /\ forall j, j < k -> mem j s = false).
Proof. intros s k. split; [apply bs_first_some|intros [M L]; now apply bs_first_unique]. Qed.
Theorem last_is_greatest : forall s k, bs_last s = Some k <-> (mem k s = true /\ forall j, k < j -> mem j s = false).
Proof. intros s k. split; [apply bs_last_some|intros [M L]; now apply bs_last_unique]. Qed.

(* compare: exactly -1/0/1, decided by the highest index at which the sets differ; an infinitely
   set bitmap is above every finite one; the empty set is below everything *)
Theorem compare_spec : forall r1 r2, wf r1 -> wf r2 -> bm_compare r1 r2 = sp_compare (abs r1) (abs r2).
Proof. exact bm_compare_spec. Qed.
Print Assumptions compare_spec.
Theorem compare_meaning_lt : forall a b d, inf a = inf b -> mem d a = false -> mem d b = true ->
  (forall j, d < j -> mem j a = mem j b) -> sp_compare a b = (-1)%Z.
Proof. exact sp_compare_lt. Qed.
Theorem compare_meaning_gt : forall a b d, inf a = inf b -> mem d a = true -> mem d b = false ->
  (forall j, d < j -> mem j a = mem j b) -> sp_compare a b = 1%Z.
Proof. exact sp_compare_gt. Qed.
Theorem compare_empty_lowest : forall b, b <> bs_empty -> sp_compare bs_empty b = (-1)%Z.
Proof.
  intros [f i] Hne. unfold sp_compare, bs_empty; simpl. destruct i; [reflexivity|].
  unfold cmpN. destruct f; [exfalso; apply Hne; reflexivity|reflexivity].
Qed.

(* compare_first.  bitmap.c AS FOUND (compare_first_last_line_fixed = false): the documented
   value is NOT a function of the sets - refuted by a witness - and holds outside the class
   {empty} x {{64c, 64c+1, ...} : c >= 1}.  The same statements are proved about
   bm_compare_first_v true (the code with patches/fix-C03-compare-first.diff applied).
   >>> AFTER THE FIX IS COMMITTED TO /repo: set compare_first_last_line_fixed := true in
   >>> Bitmap/BitmapModel.v, delete the two theorems between the BEGIN/END AS-FOUND markers and
   >>> uncomment the theorem between the BEGIN/END FIXED markers. *)
Theorem compare_first_spec : forall r1 r2, wf r1 -> wf r2 ->
  Z.sgn (bm_compare_first r1 r2) = sp_compare_first (abs r1) (abs r2).
Proof. exact compare_first_fixed_spec. Qed.
Print Assumptions compare_first_spec.
(* the fixed code, whatever the flag says *)
Theorem compare_first_with_fix_spec : forall r1 r2, wf r1 -> wf r2 ->
  Z.sgn (bm_compare_first_v true r1 r2) = sp_compare_first (abs r1) (abs r2).
Proof. exact compare_first_fixed_spec. Qed.
Print Assumptions compare_first_with_fix_spec.

(* ranges: end = -1 means "to infinity"; end < begin (after the unsigned conversion) is a no-op *)
Theorem set_range_refines : forall r b e, wf r -> b < IDXMAX -> (-1 <= e < Z.of_N IDXMAX)%Z ->
  wf (bm_set_range r b e) /\ abs (bm_set_range r b e) = sp_range (abs r) true b e.
Proof. exact bm_set_range_spec. Qed.
Print Assumptions set_range_refines.
Theorem clr_range_refines : forall r b e, wf r -> b < IDXMAX -> (-1 <= e < Z.of_N IDXMAX)%Z ->
  wf (bm_clr_range r b e) /\ abs (bm_clr_range r b e) = sp_range (abs r) false b e.
Proof. exact bm_clr_range_spec. Qed.
Print Assumptions clr_range_refines.
Example range_nonvacuous : abs (bm_clr_range (bm_set_range ex_fin2 60 (-1)) 100 70) = bs_union (abs ex_fin2) (bs_from 60).
Proof. vm_compute. reflexivity. Qed.

(* weight: number of members, -1 when infinite *)
Theorem weight_spec : forall r, wf r -> bm_weight r = sp_weight (abs r).
Proof. exact bm_weight_spec. Qed.
Print Assumptions weight_spec.
Theorem weight_is_cardinal : forall s n bound, bs_weight s = Some n -> N.size (fin s) <= N.of_nat bound ->
  n = count_below bound s.
Proof. exact weight_counts_members. Qed.
Theorem nr_ulongs_spec : forall r, wf r -> bm_nr_ulongs r = sp_nr_ulongs (abs r).
Proof. exact bm_nr_ulongs_spec. Qed.
Print Assumptions nr_ulongs_spec.

(* singlify keeps the least member only.  Guard: an infinite bitmap whose valid words are all
   zero gets one more word, so its count must be below the maximum. *)
Theorem singlify_refines : forall r, wf r -> (infinite r = true -> count r < MAXC) ->
  wf (bm_singlify r) /\ abs (bm_singlify r) = sp_singlify (abs r).
Proof. exact bm_singlify_spec. Qed.
Print Assumptions singlify_refines.
Example singlify_nonvacuous : abs (bm_singlify ex_inf3) = bs_single 1 /\ abs (bm_singlify cf_w_from64_1w) = bs_single 64.
Proof. split; vm_compute; reflexivity. Qed.

(* next(prev): least member strictly above prev (prev = -1: the first), -1 if none *)
Theorem next_spec : forall r prev, wf r -> (-1 <= prev < Z.of_N IDXMAX)%Z -> bm_next r prev = sp_next (abs r) prev.
Proof. exact bm_next_spec. Qed.
Print Assumptions next_spec.
Theorem next_unset_spec : forall r prev, wf r -> (-1 <= prev < Z.of_N IDXMAX)%Z ->
  bm_next_unset r prev = sp_next_unset (abs r) prev.
Proof. exact bm_next_unset_spec. Qed.
Print Assumptions next_unset_spec.
Example next_nonvacuous : bm_next ex_inf3 1 = 64%Z /\ bm_next ex_inf3 127 = 192%Z /\ bm_next_unset ex_inf3 (-1) = 0%Z.
Proof. repeat split; vm_compute; reflexivity. Qed.

(* compare_inclusion: EQUAL (also for two empty sets) / INCLUDED / CONTAINS / INTERSECTS / DIFFERENT *)
Theorem compare_inclusion_spec : forall r1 r2, wf r1 -> wf r2 ->
  bm_compare_inclusion r1 r2 = sp_compare_inclusion (abs r1) (abs r2).
Proof. exact bm_compare_inclusion_spec. Qed.
Print Assumptions compare_inclusion_spec.
Theorem compare_inclusion_constants :
  (BM_EQUAL, BM_INCLUDED, BM_CONTAINS, BM_INTERSECTS, BM_DIFFERENT) = (0, 1, 2, 3, 4)%Z.
Proof. reflexivity. Qed.
Example compare_inclusion_nonvacuous :
  bm_compare_inclusion cf_w_from64_2w (R 1 8 [5] false) = BM_DIFFERENT /\ bm_compare_inclusion cf_w_empty cf_w_empty = BM_EQUAL /\
  bm_compare_inclusion cf_w_from64_2w ex_inf3 = BM_INTERSECTS /\ bm_compare_inclusion cf_w_empty ex_inf3 = BM_INCLUDED.
Proof. repeat split; vm_compute; reflexivity. Qed.

(* hwloc_flsl_manual (statement by statement) is N.size on every 64-bit word *)
Theorem flsl_manual_is_size : forall w, w < U64 -> flsl_manual w = N.size w.
Proof. exact flsl_manual_correct. Qed.
Print Assumptions flsl_manual_is_size.

(* ---- corollaries: results depend on the argument SETS only ---- *)
Theorem representation_independent_queries : forall r1 r1' r2 r2',
  wf r1 -> wf r1' -> wf r2 -> wf r2' -> abs r1 = abs r1' -> abs r2 = abs r2' ->
  bm_isequal r1 r2 = bm_isequal r1' r2' /\ bm_isincluded r1 r2 = bm_isincluded r1' r2' /\
  bm_intersects r1 r2 = bm_intersects r1' r2' /\ bm_compare r1 r2 = bm_compare r1' r2' /\
  bm_compare_inclusion r1 r2 = bm_compare_inclusion r1' r2' /\
  Z.sgn (bm_compare_first_v true r1 r2) = Z.sgn (bm_compare_first_v true r1' r2') /\
  bm_iszero r1 = bm_iszero r1' /\ bm_isfull r1 = bm_isfull r1' /\
  bm_first r1 = bm_first r1' /\ bm_last r1 = bm_last r1' /\
  bm_first_unset r1 = bm_first_unset r1' /\ bm_last_unset r1 = bm_last_unset r1' /\
  bm_weight r1 = bm_weight r1' /\ bm_nr_ulongs r1 = bm_nr_ulongs r1' /\
  (forall cpu, bm_isset r1 cpu = bm_isset r1' cpu) /\
  (forall i, bm_to_ith_ulong r1 i = bm_to_ith_ulong r1' i) /\
  (forall prev, (-1 <= prev < Z.of_N IDXMAX)%Z -> bm_next r1 prev = bm_next r1' prev /\ bm_next_unset r1 prev = bm_next_unset r1' prev).
Proof.
  intros r1 r1' r2 r2' H1 H1' H2 H2' E1 E2.
  rewrite !bm_isequal_spec, !bm_isincluded_spec, !bm_intersects_spec, !bm_compare_spec, !bm_compare_inclusion_spec,
    !compare_first_fixed_spec, !bm_iszero_spec, !bm_isfull_spec, !bm_first_spec, !bm_last_spec, !bm_first_unset_spec,
    !bm_last_unset_spec, !bm_weight_spec, !bm_nr_ulongs_spec by assumption.
  rewrite E1, E2. repeat split; try reflexivity.
  - intros cpu. rewrite !bm_isset_spec by assumption. now rewrite E1.
  - intros i. rewrite !bm_to_ith_ulong_spec by assumption. now rewrite E1.
  - rewrite !bm_next_spec by assumption. now rewrite E1.
  - rewrite !bm_next_unset_spec by assumption. now rewrite E1.
Qed.
Print Assumptions representation_independent_queries.
Example representation_independent_nonvacuous :
  abs cf_w_from64_1w = abs cf_w_from64_2w /\ cf_w_from64_1w <> cf_w_from64_2w.
Proof. split; [vm_compute; reflexivity|discriminate]. Qed.

Theorem representation_independent_combinators : forall res res' r1 r1' r2 r2',
  wf res -> wf res' -> wf r1 -> wf r1' -> wf r2 -> wf r2' -> abs r1 = abs r1' -> abs r2 = abs r2' ->
  abs (bm_or res r1 r2) = abs (bm_or res' r1' r2') /\ abs (bm_and res r1 r2) = abs (bm_and res' r1' r2') /\
  abs (bm_andnot res r1 r2) = abs (bm_andnot res' r1' r2') /\ abs (bm_xor res r1 r2) = abs (bm_xor res' r1' r2') /\
  abs (bm_not res r1) = abs (bm_not res' r1') /\ abs (bm_copy res r1) = abs (bm_copy res' r1').
Proof.
  intros res res' r1 r1' r2 r2' Hr Hr' H1 H1' H2 H2' E1 E2.
  rewrite (proj2 (bm_or_spec res r1 r2 Hr H1 H2)), (proj2 (bm_or_spec res' r1' r2' Hr' H1' H2')),
    (proj2 (bm_and_spec res r1 r2 Hr H1 H2)), (proj2 (bm_and_spec res' r1' r2' Hr' H1' H2')),
    (proj2 (bm_andnot_spec res r1 r2 Hr H1 H2)), (proj2 (bm_andnot_spec res' r1' r2' Hr' H1' H2')),
    (proj2 (bm_xor_spec res r1 r2 Hr H1 H2)), (proj2 (bm_xor_spec res' r1' r2' Hr' H1' H2')),
    (proj2 (bm_not_spec res r1 Hr H1)), (proj2 (bm_not_spec res' r1' Hr' H1')),
    (proj2 (bm_copy_spec res r1 Hr H1)), (proj2 (bm_copy_spec res' r1' Hr' H1')), E1, E2.
  repeat split; reflexivity.
Qed.
Print Assumptions representation_independent_combinators.

(* the destination only contributes its allocation: using an operand as destination (the value
   the C code sees when res == set1 / res == set2) gives the same set.  The statement-order
   effects of aliasing inside the C loops are covered by the differential harness. *)
Corollary alias_independent : forall res r1 r2, wf res -> wf r1 -> wf r2 ->
  abs (bm_or r1 r1 r2) = abs (bm_or res r1 r2) /\ abs (bm_or r2 r1 r2) = abs (bm_or res r1 r2) /\
  abs (bm_and r1 r1 r2) = abs (bm_and res r1 r2) /\ abs (bm_andnot r2 r1 r2) = abs (bm_andnot res r1 r2) /\
  abs (bm_xor r1 r1 r1) = bs_empty /\ abs (bm_not r1 r1) = bs_compl (abs r1).
Proof.
  intros res r1 r2 Hr H1 H2.
  destruct (representation_independent_combinators r1 res r1 r1 r2 r2) as (A & B & C & D & _); auto.
  destruct (representation_independent_combinators r2 res r1 r1 r2 r2) as (A' & B' & C' & D' & _); auto.
  repeat split; auto.
  - rewrite (proj2 (bm_xor_spec r1 r1 r1 H1 H1 H1)). apply bs_ext. intros i. rewrite mem_xor, mem_empty. apply xorb_nilpotent.
  - apply bm_not_spec; assumption.
Qed.
