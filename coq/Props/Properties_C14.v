(* C14 - property theorems (statements only; proofs are in Attr/MemattrsProofs.v).
   Model: Attr/Memattrs.v, tied to hwloc/memattrs.c by checks/c14.py.
   All theorems hold for every state satisfying [Inv]; [memattr_all_histories]
   shows that this is every state reachable from a loaded topology by any list
   of operations meeting [hist_ok] (objects passed belong to the topology,
   cpuset initiators of set_value lie inside the root cpuset, restrict only
   removes things). *)
From Coq Require Import List NArith Bool Lia.
From HV Require Import Base.BSet Gen.Tables Attr.Memattrs Attr.MemattrsAux Attr.MemattrsProofs.
Import ListNotations.
Local Open Scope N_scope.

(* ---- the predefined attributes, as the current source initialises them ---- *)
Theorem memattr_predefined_table_ok :
  map a_conv init_attrs = [true; true; false; false; false; false; false; false] /\
  forallb (fun a => reg_flags_ok (a_flags a)) init_attrs = true /\
  forallb (fun a => negb (a_conv a) || negb (need_init a)) init_attrs = true /\
  lenN init_attrs = HWLOC_MEMATTR_ID_MAX /\
  HWLOC_MEMATTR_ID_CAPACITY = 0 /\ HWLOC_MEMATTR_ID_LOCALITY = 1.
Proof. vm_compute. repeat split. Qed.
Print Assumptions memattr_predefined_table_ok.

(* ---- all histories ---- *)
Theorem memattr_all_histories :
  forall t ops, wf_topo t -> hist_ok (init_state t) ops ->
  Inv (run (init_state t) ops) /\ AllOk (run (init_state t) ops).
Proof.
  intros t ops W H. split; [apply run_Inv; [now apply init_state_Inv|assumption]|].
  apply run_AllOk; [apply init_state_AllOk|assumption].
Qed.
Print Assumptions memattr_all_histories.

(* ---- register ---- *)
Theorem memattr_register_rules :
  forall s name flags,
  let s' := fst (register s name flags) in
  let r := snd (register s name flags) in
  (reg_flags_ok flags = false -> r = Err EINVAL /\ s' = s) /\
  (reg_flags_ok flags = true -> name_used (m_attrs s) name = true -> r = Err EBUSY /\ s' = s) /\
  (reg_flags_ok flags = true -> name_used (m_attrs s) name = false ->
     let id := lenN (m_attrs s) in
     r = Ok id /\ m_topo s' = m_topo s /\
     m_attrs s' = m_attrs s ++ [Imattr name flags false true []] /\
     get_flags s' id = Ok flags /\ get_name s' id = Ok name /\ get_by_name s' name = Ok id /\
     (forall j, j < id -> get_attr s' j = get_attr s j)).
Proof. exact register_rules. Qed.
Print Assumptions memattr_register_rules.

(* ---- get returns the last value stored ---- *)
(* queries never change what later calls observe *)
Theorem memattr_queries_pure :
  forall s o, Inv s -> is_query o = true ->
  Inv (fst (step s o)) /\ m_topo (fst (step s o)) = m_topo s /\ forall id, tgs_of (fst (step s o)) id = tgs_of s id.
Proof. exact query_preserves. Qed.
Print Assumptions memattr_queries_pure.

(* get_value is a function of the refreshed content [tgs_of] *)
Theorem memattr_get_reads_content :
  forall s id a o init, get_attr s id = Some a -> a_conv a = false ->
  snd (get_value s id (Some o) init 0) = get_in (need_init a) (tgs_of s id) o init.
Proof. exact get_value_snd. Qed.
Print Assumptions memattr_get_reads_content.

(* a successful set_value is observed by the same query *)
Theorem memattr_get_last_set :
  forall s id o init il v,
  Inv s -> public_il init = Some il -> set_args_ok s id o il ->
  let s' := fst (set_value s id (Some o) init 0 v) in
  snd (set_value s id (Some o) init 0 v) = Ok tt /\ Inv s' /\
  snd (get_value s' id (Some o) init 0) = Ok v.
Proof. exact set_then_get. Qed.
Print Assumptions memattr_get_last_set.

(* pairwise-disjoint stored cpusets: any non-empty query included in the set's
   cpuset reads the value *)
Theorem memattr_get_last_set_included :
  forall s id o c c' v,
  Inv s -> set_args_ok s id o (Some (ICpu c)) ->
  (forall a, get_attr s id = Some a -> need_init a = true) ->
  (forall g, find_target (tgs_of s id) (o_type o) (o_gp o) (o_os o) = Some g ->
             pd (g_inits g) /\ compat (g_inits g) (ICpu c)) ->
  bs_is_empty c' = false -> bs_subset c' c = true ->
  let s' := fst (set_value s id (Some o) (Some (LCpu (Some c))) 0 v) in
  snd (get_value s' id (Some o) (Some (LCpu (Some c'))) 0) = Ok v.
Proof. exact set_then_get_included. Qed.
Print Assumptions memattr_get_last_set_included.

(* the hypothesis [pd] is an invariant: it is kept by every set_value whose
   cpuset is included in a stored one or disjoint from all of them ([compat]),
   and by the refresh that follows restrict *)
Theorem memattr_disjointness_preserved :
  (forall nok q v is, pd is -> compat is q -> pd (upsert_init nok q v is)) /\
  (forall t is, pd is -> pd (filter_map (refresh_imi t) is)).
Proof. split; [exact upsert_init_pd|exact refresh_imi_pd]. Qed.
Print Assumptions memattr_disjointness_preserved.

(* ... and it changes nothing else *)
Theorem memattr_set_frame_attr :
  forall s id o init il v id' tgt' init' flags',
  Inv s -> public_il init = Some il -> set_args_ok s id o il -> id' <> id ->
  let s' := fst (set_value s id (Some o) init 0 v) in
  snd (get_value s' id' tgt' init' flags') = snd (get_value s id' tgt' init' flags').
Proof. exact set_frame_attr. Qed.
Print Assumptions memattr_set_frame_attr.

Theorem memattr_set_frame_target :
  forall s id o init il v o' init',
  Inv s -> public_il init = Some il -> set_args_ok s id o il ->
  In o' (t_objs (m_topo s)) -> o' <> o ->
  let s' := fst (set_value s id (Some o) init 0 v) in
  snd (get_value s' id (Some o') init' 0) = snd (get_value s id (Some o') init' 0).
Proof. exact set_frame_target. Qed.
Print Assumptions memattr_set_frame_target.

(* another initiator of the same target: unchanged unless it resolves to the
   entry the set's initiator resolves to *)
Theorem memattr_set_frame_initiator :
  forall s id o l q l' q' v,
  Inv s -> to_internal l = Some q -> to_internal l' = Some q' -> set_args_ok s id o (Some q) ->
  (forall a, get_attr s id = Some a -> need_init a = true) ->
  (forall g i, find_target (tgs_of s id) (o_type o) (o_gp o) (o_os o) = Some g -> In i (g_inits g) ->
      match_iloc q (i_loc i) = true -> match_iloc q' (i_loc i) = false) ->
  match_iloc q' q = false ->
  let s' := fst (set_value s id (Some o) (Some l) 0 v) in
  snd (get_value s' id (Some o) (Some l') 0) = snd (get_value s id (Some o) (Some l') 0).
Proof. exact set_frame_initiator. Qed.
Print Assumptions memattr_set_frame_initiator.

(* its hypothesis holds e.g. for two different objects, or an object and a cpuset *)
Theorem memattr_initiators_exclusive :
  forall q q' l, (match q, q' with ICpu _, ICpu _ => False | _, _ => q <> q' end) ->
  match_iloc q l = true -> match_iloc q' l = false.
Proof. exact match_iloc_exclusive. Qed.
Print Assumptions memattr_initiators_exclusive.

(* ---- enumerations and the *nr convention ---- *)
Theorem memattr_enumerate_targets_exact :
  forall s id a init max tnull,
  Inv s -> get_attr s id = Some a -> a_conv a = false -> (max = 0 \/ tnull = false) ->
  let all := entries (need_init a) (tgs_of s id) init true in
  snd (get_targets s id init 0 max tnull) = Ok (lenN all, firstnN max all) /\
  lenN (firstnN max all) = N.min max (lenN all) /\
  (lenN all <= max -> firstnN max all = all) /\
  NoDup (map fst all) /\
  (forall gp v, In (gp, v) all <->
     exists g, In g (tgs_of s id) /\ g_gp g = gp /\
       ((need_init a = false /\ v = g_val g) \/ (need_init a = true /\ init = None /\ v = 0) \/
        (need_init a = true /\ init <> None /\ exists i, find_init_loc g init = Some i /\ v = i_val i))).
Proof.
  intros s id a init max tnull I G C M. cbn zeta.
  split; [now apply get_targets_snd|]. split; [apply firstnN_length|]. split; [apply firstnN_all|].
  split; [now apply entries_nodup|]. intros gp v. apply entries_in.
Qed.
Print Assumptions memattr_enumerate_targets_exact.

(* [AllOk]: every cached object pointer is initialised; it holds in all public
   histories (memattr_all_histories) since fix c37319b *)
Theorem memattr_enumerate_initiators_exact :
  forall s id a o max inull,
  AllOk s -> get_attr s id = Some a -> need_init a = true -> (max = 0 \/ inull = false) ->
  snd (get_initiators s id (Some o) 0 max inull) =
  match find_target (tgs_of s id) (o_type o) (o_gp o) (o_os o) with
  | None => Err EINVAL
  | Some g => Ok (lenN (g_inits g), map (fun i => (i_loc i, i_val i)) (firstnN max (g_inits g)))
  end.
Proof. exact get_initiators_exact. Qed.
Print Assumptions memattr_enumerate_initiators_exact.

(* ---- best-of queries ---- *)
Theorem best_target_optimal :
  forall s id a init, get_attr s id = Some a -> a_conv a = false ->
  let cands := entries (need_init a) (tgs_of s id) init false in
  (snd (get_best_target s id init 0) = Err ENOENT <-> cands = []) /\
  (forall gp v, snd (get_best_target s id init 0) = Ok (gp, v) ->
     In (gp, v) cands /\ forall gp' v', In (gp', v') cands -> better (higher a) v v').
Proof. exact best_target_optimal_lemma. Qed.
Print Assumptions best_target_optimal.

Theorem best_initiator_optimal :
  forall s id a o g, get_attr s id = Some a -> need_init a = true ->
  find_target (tgs_of s id) (o_type o) (o_gp o) (o_os o) = Some g ->
  (snd (get_best_initiator s id (Some o) 0) = Err ENOENT <-> g_inits g = []) /\
  (forall l v, snd (get_best_initiator s id (Some o) 0) = Ok (l, v) ->
     (exists i, In i (g_inits g) /\ i_loc i = l /\ i_val i = v) /\
     forall i', In i' (g_inits g) -> better (higher a) v (i_val i')).
Proof. exact best_initiator_optimal_lemma. Qed.
Print Assumptions best_initiator_optimal.

Theorem best_initiator_defined :
  forall s id a o, AllOk s -> get_attr s id = Some a -> need_init a = true ->
  snd (get_best_initiator s id (Some o) 0) <> Err EUB.
Proof. exact get_best_initiator_defined. Qed.
Print Assumptions best_initiator_defined.

(* ---- Capacity and Locality ---- *)
Theorem capacity_locality_derived_readonly :
  forall s n init, Inv s ->
  (is_numa n = true -> get_value s HWLOC_MEMATTR_ID_CAPACITY (Some n) init 0 = (s, Ok (o_mem n))) /\
  (o_hascpuset n = true -> get_value s HWLOC_MEMATTR_ID_LOCALITY (Some n) init 0 = (s, Ok (weight64 (o_cpuset n)))) /\
  (forall id tgt i f v, id < 2 -> set_value s id tgt i f v = (s, Err EINVAL)).
Proof.
  intros s n init I.
  destruct (conv_ids s 0 I eq_refl) as [a0 [G0 C0]]. destruct (conv_ids s 1 I eq_refl) as [a1 [G1 C1]].
  split; [|split].
  - intros Hn. change HWLOC_MEMATTR_ID_CAPACITY with 0. rewrite (conv_attr_get s 0 a0 n init G0 C0).
    unfold conv_value. cbn [N.eqb HWLOC_MEMATTR_ID_CAPACITY]. now rewrite Hn.
  - intros Hc. change HWLOC_MEMATTR_ID_LOCALITY with 1. rewrite (conv_attr_get s 1 a1 n init G1 C1).
    unfold conv_value. cbn. now rewrite Hc.
  - intros id tgt i f v Hid. destruct (conv_ids s id I Hid) as [a [G C]]. now apply (conv_attr_readonly s id a).
Qed.
Print Assumptions capacity_locality_derived_readonly.

(* ---- local NUMA nodes ---- *)
Theorem local_nodes_exact :
  forall s c flags max nnull,
  N.ldiff flags local_mask = 0 -> (max = 0 \/ nnull = false) ->
  let sel := map o_gp (filter (local_sel flags c) (numa_nodes (m_topo s))) in
  local_numanodes s (Some (LCpu (Some c))) flags max nnull = Ok (lenN sel, firstnN max sel) /\
  (forall n, local_sel flags c n = true <->
     has flags HWLOC_LOCAL_NUMANODE_FLAG_ALL = true \/
     (has flags HWLOC_LOCAL_NUMANODE_FLAG_LARGER_LOCALITY = true /\ (forall i, mem i c = true -> mem i (o_cpuset n) = true)) \/
     (has flags HWLOC_LOCAL_NUMANODE_FLAG_SMALLER_LOCALITY = true /\ (forall i, mem i (o_cpuset n) = true -> mem i c = true)) \/
     o_cpuset n = c).
Proof.
  intros s c flags max nnull Hf Hm. cbn zeta. split; [now apply local_numanodes_spec|].
  intros n. unfold local_sel. rewrite orb_true_iff, match_local_spec. tauto.
Qed.
Print Assumptions local_nodes_exact.

(* ---- restrict and dup ---- *)
Theorem memattr_survives_restrict :
  forall s t' id a,
  Inv s -> shrinks (m_topo s) t' -> get_attr s id = Some a -> a_conv a = false ->
  Inv (retopo s t') /\
  tgs_of (retopo s t') id = filter_map (refresh_tg t' (need_init a)) (tgs_of s id).
Proof. intros. split; [now apply retopo_Inv|now apply retopo_tgs]. Qed.
Print Assumptions memattr_survives_restrict.

(* what refresh keeps, spelled out *)
Theorem memattr_restrict_keeps :
  forall t' need g g', tg_ok t' need g -> refresh_tg t' need g = Some g' ->
  g_type g' = g_type g /\ g_gp g' = g_gp g /\ g_val g' = g_val g /\
  g_inits g' = (if need then filter_map (refresh_imi t') (g_inits g) else g_inits g).
Proof. intros t' need g g' T R. apply (refresh_tg_out _ _ _ _ T) in R. tauto. Qed.
Print Assumptions memattr_restrict_keeps.

Theorem memattr_survives_dup :
  forall s id, Inv s -> Inv (dup_switch s) /\ map ok_tg (tgs_of (dup_switch s) id) = map ok_tg (tgs_of s id).
Proof. intros. split; [now apply dup_Inv|now apply dup_tgs]. Qed.
Print Assumptions memattr_survives_dup.

(* ---- the internal entry point and the XML replay ---- *)
(* state after XML export + import + end of load, for ANY source state and any
   well-formed re-imported topology: the invariants hold again (in particular
   no duplicate targets, every target/initiator resolved, all cached pointers set) *)
Theorem memattr_xml_reload_invariant :
  forall s t', Inv s -> wf_topo t' -> Inv (xml_switch s t') /\ AllOk (xml_switch s t').
Proof. exact xml_switch_Inv. Qed.
Print Assumptions memattr_xml_reload_invariant.

(* histories that also contain hwloc_internal_memattr_set_value (target given by
   the fields of an existing object, initiator NULL or an in-root cpuset) and
   XML round trips *)
Theorem memattr_all_histories_ext :
  forall t ops, wf_topo t -> hist_ok_x (init_state t) ops ->
  Inv (run (init_state t) ops) /\ AllOk (run (init_state t) ops).
Proof.
  intros t ops W H. apply run_InvX; [|assumption]. split; [now apply init_state_Inv|apply init_state_AllOk].
Qed.
Print Assumptions memattr_all_histories_ext.

(* ---- hwloc_topology_allow ---- *)
(* The refresh intersects cpuset initiators with the ROOT cpuset ([refresh_imi]), never with the
   allowed cpuset: whatever hwloc_topology_allow does (any sets, any flags, with or without
   INCLUDE_DISALLOWED), the memory-attribute state is the same afterwards, so every later call
   answers as if allow had not happened; stored initiators inside the root cpuset survive any allow. *)
Theorem memattr_allow_irrelevant :
  forall s incl c n f, fst (step s (OAllow incl c n f)) = s.
Proof. reflexivity. Qed.
Print Assumptions memattr_allow_irrelevant.

Theorem memattr_allow_then_any :
  forall s incl c n f ops, run s (OAllow incl c n f :: ops) = run s ops /\
  forall o, step (fst (step s (OAllow incl c n f))) o = step s o.
Proof. intros. split; reflexivity. Qed.
Print Assumptions memattr_allow_then_any.

(* a stored cpuset initiator inside the root cpuset is a fixpoint of the refresh *)
Theorem memattr_refresh_keeps_in_root_initiators :
  forall t i, istable t i -> refresh_imi t i = Some (ok_imi i).
Proof. exact refresh_imi_stable. Qed.
Print Assumptions memattr_refresh_keeps_in_root_initiators.

(* ---- default nodeset ---- *)
Theorem default_nodeset_disjoint_existing :
  forall s set,
  NoDup (map o_os (numa_nodes (m_topo s))) ->
  default_nodeset s 0 = Ok set ->
  (forall i, mem i set = true -> exists n, In n (numa_nodes (m_topo s)) /\ o_os n = i) /\
  (forall n m, In n (numa_nodes (m_topo s)) -> In m (numa_nodes (m_topo s)) -> o_os n <> o_os m ->
     mem (o_os n) set = true -> mem (o_os m) set = true -> bs_disjoint (o_cpuset n) (o_cpuset m)).
Proof. exact default_nodeset_spec. Qed.
Print Assumptions default_nodeset_disjoint_existing.

(* ================================================================== *)
(* non-vacuity and refutations: 1 machine, 2 NUMA nodes (PUs 0-1 and 2-3), 4 PUs *)

Definition c01 := bs_of_N 3.
Definition c23 := bs_of_N 12.
Definition ex_numa0 := Obj HWLOC_OBJ_NUMANODE 10 0 true c01 1024 0.
Definition ex_numa1 := Obj HWLOC_OBJ_NUMANODE 11 1 true c23 2048 0.
Definition ex_pu0 := Obj HWLOC_OBJ_PU 6 0 true (bs_of_N 1) 0 0.
Definition ex_pu1 := Obj HWLOC_OBJ_PU 7 1 true (bs_of_N 2) 0 0.
Definition ex_topo := Topo (bs_of_N 15)
  [Obj HWLOC_OBJ_MACHINE 1 0 true (bs_of_N 15) 0 0; ex_pu0; ex_pu1;
   Obj HWLOC_OBJ_PU 8 2 true (bs_of_N 4) 0 0; Obj HWLOC_OBJ_PU 9 3 true (bs_of_N 8) 0 0; ex_numa0; ex_numa1].
(* after restricting to PUs 0,1,2 with REMOVE_CPULESS unset *)
Definition ex_topo2 := Topo (bs_of_N 7)
  [Obj HWLOC_OBJ_MACHINE 1 0 true (bs_of_N 7) 0 0; ex_pu0; ex_pu1;
   Obj HWLOC_OBJ_PU 8 2 true (bs_of_N 4) 0 0; ex_numa0; Obj HWLOC_OBJ_NUMANODE 11 1 true (bs_of_N 4) 2048 0].

Example ex_wf : wf_topo ex_topo.
Proof.
  constructor.
  - cbn. repeat constructor; cbn; intuition discriminate.
  - intros o H. cbn in H. intuition (subst; discriminate).
  - intros o1 o2 H1 H2. cbn in H1, H2. intuition (subst; try reflexivity; cbn in *; try discriminate; try congruence).
  - intros o H. cbn in H. intuition (subst; try reflexivity; cbn in *; discriminate).
Qed.

Example ex_shrinks : shrinks ex_topo ex_topo2.
Proof.
  constructor.
  - constructor.
    + cbn. repeat constructor; cbn; intuition discriminate.
    + intros o H. cbn in H. intuition (subst; discriminate).
    + intros o1 o2 H1 H2. cbn in H1, H2. intuition (subst; try reflexivity; cbn in *; try discriminate; try congruence).
    + intros o H. cbn in H. intuition (subst; try reflexivity; cbn in *; discriminate).
  - intros o' H.
    exists (match obj_by_type_gp ex_topo (o_type o') (o_gp o') with Some o => o | None => o' end).
    cbn in H. repeat (destruct H as [<-|H]; [vm_compute; intuition|]). destruct H.
  - reflexivity.
Qed.

Definition nm (l : list N) := l.
Definition ex_ops : list op :=
  [ ORegister (nm [102; 111; 111]) 5;                                   (* "foo", HIGHER|NEED_INITIATOR -> id 8 *)
    OSet 8 (Some ex_numa0) (Some (LCpu (Some c01))) 0 10;
    OSet 8 (Some ex_numa1) (Some (LCpu (Some c01))) 0 30;
    OSet 8 (Some ex_numa1) (Some (LCpu (Some c23))) 0 30;
    OSet 8 (Some ex_numa0) (Some (LCpu (Some (bs_of_N 1)))) 0 20;        (* included in the stored 0x3: overwrites it *)
    OGet 8 (Some ex_numa0) (Some (LCpu (Some (bs_of_N 2)))) 0;
    OBestT 8 (Some (LCpu (Some (bs_of_N 1)))) 0;
    OSet 3 (Some ex_numa0) (Some (LObj ex_pu0)) 0 7 ].

Example ex_hist_ok : hist_ok (init_state ex_topo) ex_ops.
Proof. vm_compute. intuition. Qed.

Example ex_inv : Inv (run (init_state ex_topo) ex_ops) /\ AllOk (run (init_state ex_topo) ex_ops).
Proof. apply (memattr_all_histories ex_topo ex_ops); [exact ex_wf|exact ex_hist_ok]. Qed.

(* the history really stores, reads back, finds ties and keeps two attributes apart *)
Example ex_results :
  let s := run (init_state ex_topo) ex_ops in
  snd (get_value s 8 (Some ex_numa0) (Some (LCpu (Some (bs_of_N 2)))) 0) = Ok 20 /\
  snd (get_best_target s 8 (Some (LCpu (Some (bs_of_N 1)))) 0) = Ok (11, 30) /\
  snd (get_targets s 8 None 0 1 false) = Ok (2, [(10, 0)]) /\
  snd (get_value s 3 (Some ex_numa0) (Some (LObj ex_pu0)) 0) = Ok 7 /\
  snd (get_value s 0 (Some ex_numa1) None 0) = Ok 2048 /\
  snd (get_value s 1 (Some ex_numa1) None 0) = Ok 2 /\
  snd (set_value s 0 (Some ex_numa1) None 0 5) = Err EINVAL /\
  local_numanodes s (Some (LCpu (Some (bs_of_N 1)))) HWLOC_LOCAL_NUMANODE_FLAG_LARGER_LOCALITY 4 false = Ok (1, [10]).
Proof. vm_compute. repeat split. Qed.

Example ex_default_nodeset :
  NoDup (map o_os (numa_nodes ex_topo)) /\ default_nodeset (init_state ex_topo) 0 = Ok (bs_of_N 3).
Proof. split; [cbn; repeat constructor; cbn; intuition discriminate|vm_compute; reflexivity]. Qed.

Example ex_hist_ok_x :
  hist_ok_x (init_state ex_topo)
    [OISet 2 HWLOC_OBJ_NUMANODE 10 0 (Some (ICpu c01)) 5; OXml ex_topo;
     OSet 2 (Some ex_numa0) (Some (LObj ex_pu0)) 0 9; OXml ex_topo; OInits 2 (Some ex_numa0) 0 4 false] /\
  snd (get_initiators (run (init_state ex_topo)
    [OISet 2 HWLOC_OBJ_NUMANODE 10 0 (Some (ICpu c01)) 5; OXml ex_topo;
     OSet 2 (Some ex_numa0) (Some (LObj ex_pu0)) 0 9; OXml ex_topo]) 2 (Some ex_numa0) 0 4 false)
  = Ok (2, [(ICpu c01, 5); (IObj HWLOC_OBJ_PU 6, 9)]).
Proof.
  split; [|vm_compute; reflexivity].
  cbn [hist_ok_x op_ok_x].
  split; [split; [exists ex_numa0; vm_compute; intuition|split; [exact Logic.I|split; reflexivity]]|].
  split; [exact ex_wf|]. split; [vm_compute; intuition|]. split; [exact ex_wf|]. split; exact Logic.I.
Qed.

(* hypotheses of memattr_set_frame_initiator met: two PUs as initiators *)
Example ex_frame_initiator :
  let s := run (init_state ex_topo) ex_ops in
  snd (get_value (fst (set_value s 3 (Some ex_numa0) (Some (LObj ex_pu1)) 0 8)) 3 (Some ex_numa0) (Some (LObj ex_pu0)) 0) = Ok 7.
Proof. vm_compute. reflexivity. Qed.

(* hypotheses of memattr_get_last_set_included are met by a real state *)
Example ex_included_hyps :
  let s := run (init_state ex_topo) (firstn 4 ex_ops) in
  set_args_ok s 8 ex_numa0 (Some (ICpu (bs_of_N 1))) /\
  exists g, find_target (tgs_of s 8) (o_type ex_numa0) (o_gp ex_numa0) (o_os ex_numa0) = Some g /\
            pd (g_inits g) /\ compat (g_inits g) (ICpu (bs_of_N 1)).
Proof.
  cbn zeta. split.
  - split; [cbn; tauto|]. split; [split; reflexivity|]. eexists. split; [vm_compute; reflexivity|]. split; reflexivity.
  - eexists. split; [vm_compute; reflexivity|]. split.
    + repeat constructor.
    + left. vm_compute. discriminate.
Qed.

(* restrict: the entry of numa1 for initiator 0x3 vanishes (PUs gone from ... no: 0x3 stays), 0xc shrinks to 0x4 *)
Example ex_restrict :
  let s := retopo (run (init_state ex_topo) ex_ops) ex_topo2 in
  snd (get_initiators s 8 (Some (Obj HWLOC_OBJ_NUMANODE 11 1 true (bs_of_N 4) 2048 0)) 0 4 false)
    = Ok (2, [(ICpu c01, 30); (ICpu (bs_of_N 4), 30)]).
Proof. vm_compute. reflexivity. Qed.

(* ---- refutations (each replayed on the C code by checks/c14.py) ---- *)

(* without disjointness "a query included in the set's cpuset reads the value"
   is false: stored {0}, then set {0,1} is appended, and get {0} still reads the
   first entry (the FIXME in hwloc__internal_memattr_set_value) *)
Theorem memattr_get_last_set_overlap_refuted :
  exists s c c' v, Inv s /\ set_args_ok s 8 ex_numa0 (Some (ICpu c)) /\
    bs_is_empty c' = false /\ bs_subset c' c = true /\
    snd (get_value (fst (set_value s 8 (Some ex_numa0) (Some (LCpu (Some c))) 0 v)) 8 (Some ex_numa0) (Some (LCpu (Some c'))) 0) <> Ok v.
Proof.
  exists (run (init_state ex_topo) [ORegister (nm [102]) 5; OSet 8 (Some ex_numa0) (Some (LCpu (Some (bs_of_N 1)))) 0 1]).
  exists c01, (bs_of_N 1), 2. split.
  - apply (memattr_all_histories ex_topo); [exact ex_wf|]. vm_compute. intuition.
  - split; [|split; [reflexivity|split; [reflexivity|vm_compute; discriminate]]].
    split; [cbn; tauto|]. split; [split; reflexivity|]. eexists. split; [vm_compute; reflexivity|]. split; reflexivity.
Qed.
Print Assumptions memattr_get_last_set_overlap_refuted.

(* a cpuset initiator reaching outside the root cpuset (hypothesis [loc_ok] of
   [hist_ok] violated) is silently narrowed by the refresh that follows the
   creation of its target: the very same query no longer matches *)
Theorem memattr_outside_root_refuted :
  exists ops c v,
    let s := run (init_state ex_topo) ops in
    let s' := fst (set_value s 8 (Some ex_numa0) (Some (LCpu (Some c))) 0 v) in
    snd (set_value s 8 (Some ex_numa0) (Some (LCpu (Some c))) 0 v) = Ok tt /\
    snd (get_value s' 8 (Some ex_numa0) (Some (LCpu (Some c))) 0) = Err EINVAL /\
    snd (get_value s' 8 (Some ex_numa0) (Some (LCpu (Some (bs_of_N 8)))) 0) = Ok v.
Proof.
  exists [ORegister (nm [102]) 5], (bs_of_N 24), 5. vm_compute. repeat split.
Qed.
Print Assumptions memattr_outside_root_refuted.

(* regressions of two fixed defects (known_findings.txt "fixed:" lines): an
   object initiator appended to an already refreshed target is enumerated, and
   dup after a refresh dropped every target of an attribute is an ordinary dup *)
Example ex_regress_object_initiator :
  let s := run (init_state ex_topo)
     [ORegister (nm [102]) 5; OSet 8 (Some ex_numa0) (Some (LObj ex_pu0)) 0 10;
      OGet 8 (Some ex_numa0) (Some (LObj ex_pu0)) 0; OSet 8 (Some ex_numa0) (Some (LObj ex_pu1)) 0 20] in
  snd (get_initiators s 8 (Some ex_numa0) 0 4 false) = Ok (2, [(IObj HWLOC_OBJ_PU 6, 10); (IObj HWLOC_OBJ_PU 7, 20)]) /\
  snd (get_best_initiator s 8 (Some ex_numa0) 0) = Ok (IObj HWLOC_OBJ_PU 7, 20).
Proof. vm_compute. split; reflexivity. Qed.

Example ex_regress_dup_after_all_targets_dropped :
  let ops := [OSet 2 (Some ex_numa1) (Some (LCpu (Some (bs_of_N 8)))) 0 10; ORetopo ex_topo2;
              OGet 2 (Some ex_numa0) (Some (LCpu (Some (bs_of_N 1)))) 0; ODup] in
  hist_ok (init_state ex_topo) ops /\ tgs_of (run (init_state ex_topo) ops) 2 = [].
Proof.
  cbn zeta. split; [|vm_compute; reflexivity].
  cbn [hist_ok]. split; [vm_compute; intuition|]. split; [exact ex_shrinks|]. repeat split.
Qed.

(* targets other than NUMA nodes whose os_index is not unique within their type
   (hypothesis wf_os_unique of [wf_topo] violated: two cores numbered 0 in two
   packages) are confused by hwloc__memattr_get_target's "gp_index OR os_index"
   match: the value set for one core is read through the other *)
Definition ex_core_a := Obj HWLOC_OBJ_CORE 3 0 true (bs_of_N 1) 0 0.
Definition ex_core_b := Obj HWLOC_OBJ_CORE 6 0 true (bs_of_N 2) 0 0.
Definition ex_topo_dupos := Topo (bs_of_N 3)
  [Obj HWLOC_OBJ_MACHINE 1 0 true (bs_of_N 3) 0 0; ex_core_a; ex_core_b;
   Obj HWLOC_OBJ_NUMANODE 8 0 true (bs_of_N 3) 1024 0].
Theorem memattr_target_os_index_refuted :
  exists ops,
    let s := run (init_state ex_topo_dupos) ops in
    ex_core_a <> ex_core_b /\
    snd (get_value s 8 (Some ex_core_b) None 0) = Err EINVAL /\
    snd (get_value (fst (set_value s 8 (Some ex_core_a) None 0 10)) 8 (Some ex_core_b) None 0) = Ok 10.
Proof. exists [ORegister (nm [102]) 1]. vm_compute. repeat split. discriminate. Qed.
Print Assumptions memattr_target_os_index_refuted.

(* regression of a fixed defect (a3b32cd): the second loop of
   hwloc_topology_get_default_nodeset tested bit <array position> instead of
   nodes[i]->os_index; with NUMA os_indexes 1 and 2 and the second node of another
   subtype it returned {1}.  corpus/c14/08-default-nodeset-os-index.case *)
Definition ex_topo_dn := Topo (bs_of_N 6)
  [Obj HWLOC_OBJ_MACHINE 1 0 true (bs_of_N 6) 0 0;
   Obj HWLOC_OBJ_PU 5 1 true (bs_of_N 2) 0 0; Obj HWLOC_OBJ_PU 8 2 true (bs_of_N 4) 0 0;
   Obj HWLOC_OBJ_NUMANODE 7 1 true (bs_of_N 2) 1024 0; Obj HWLOC_OBJ_NUMANODE 10 2 true (bs_of_N 4) 1024 1].
Example ex_regress_default_nodeset_os_index : default_nodeset (init_state ex_topo_dn) 0 = Ok (bs_of_N 6).
Proof. vm_compute. reflexivity. Qed.

(* ---- HWLOC_TOPOLOGY_FLAG_NO_MEMATTRS ---- *)
(* no predefined attribute: the application's attributes take ids 0, 1, ... (memattr_register_rules:
   new id = number of attributes), they are ordinary stored attributes - best_target_optimal,
   memattr_get_reads_content, memattr_enumerate_* do not assume anything about the id - and
   Capacity/Locality semantics never apply to them (seeded change C14h keyed on id 0/1) *)
Example ex_nomem_ids :
  let s := run (init_state_nomem ex_topo)
     [ORegister (nm [97]) 5; ORegister (nm [98]) 2;
      OSet 0 (Some ex_numa0) (Some (LCpu (Some c01))) 0 10; OSet 0 (Some ex_numa1) (Some (LCpu (Some c01))) 0 30;
      OSet 1 (Some ex_numa0) None 0 7; OSet 1 (Some ex_numa1) None 0 3] in
  snd (register (init_state_nomem ex_topo) (nm [97]) 5) = Ok 0 /\
  get_flags s 0 = Ok 5 /\ get_flags s 1 = Ok 2 /\
  snd (get_best_target s 0 (Some (LCpu (Some (bs_of_N 1)))) 0) = Ok (11, 30) /\
  snd (get_best_target s 0 (Some (LCpu (Some c23))) 0) = Err ENOENT /\
  snd (get_best_target s 0 None 0) = Err ENOENT /\
  snd (get_best_target s 1 None 0) = Ok (11, 3) /\
  snd (get_value s 0 (Some ex_numa0) (Some (LCpu (Some c01))) 0) = Ok 10 /\
  snd (set_value s 0 (Some ex_numa0) (Some (LCpu (Some c01))) 0 11) = Ok tt /\
  m_attrs (fst (step s (OXmlNoMem ex_topo))) = [].
Proof. vm_compute. repeat split. Qed.
