(* C01 - property theorems only (DESIGN.md 6.C01).
   Model: Topo/Obj.v (hwloc_connect_levels, special lists), Topo/WFCheck.v
   (executable statement of well-formedness).  Proofs: Topo/LevelsProofs.v. *)
From Coq Require Import List NArith ZArith Bool Permutation.
From HV Require Import Base.BSet Gen.Tables Text.TypeOrder Topo.Dump Topo.WFCheck Topo.Obj Topo.LevelsProofs.
Import ListNotations.
Local Open Scope N_scope.

(* The level-building loop of hwloc_connect_levels terminates on every tree
   (the C loop has no written termination argument): fuel = number of objects. *)
Theorem levels_terminate : forall root,
  types_ok (nflatten root) -> exists ls, levels_of root = Some ls.
Proof. exact levels_of_terminates. Qed.
Print Assumptions levels_terminate.

(* Every object reachable through normal children is in exactly one level. *)
Theorem levels_partition : forall root ls,
  levels_of root = Some ls -> Permutation (concat ls) (nflatten root).
Proof. exact levels_of_partition. Qed.
Print Assumptions levels_partition.

(* Every level is non-empty and all its objects have the same type (and group kind). *)
Theorem levels_homogeneous : forall root ls,
  types_ok (nflatten root) -> levels_of root = Some ls -> Forall homogeneous ls.
Proof. exact levels_of_homogeneous. Qed.
Print Assumptions levels_homogeneous.

(* A normal child is always strictly deeper than its parent. *)
Theorem levels_child_deeper : forall root ls,
  levels_of root = Some ls ->
  forall k lvl o c, nth_error ls k = Some lvl -> In o lvl -> In c (onch o) ->
  exists k' lvl', (k < k')%nat /\ nth_error ls k' = Some lvl' /\ In c lvl'.
Proof. exact levels_of_child_deeper. Qed.
Print Assumptions levels_child_deeper.

(* PUs form the deepest normal level, and that level holds PUs only. *)
Theorem levels_pu_last : forall root ls,
  types_ok (nflatten root) -> pus_are_leaves (nflatten root) -> otype root <> HWLOC_OBJ_PU ->
  levels_of root = Some ls ->
  forall k lvl o, nth_error ls k = Some lvl -> In o lvl -> otype o = HWLOC_OBJ_PU ->
  S k = List.length ls /\ forall o', In o' lvl -> otype o' = HWLOC_OBJ_PU.
Proof. exact levels_of_pu_last. Qed.
Print Assumptions levels_pu_last.

(* hwloc_type_cmp()==EQUAL is an equivalence on valid types: needed for "all
   objects of a level have the same type" to be meaningful *)
Theorem type_cmp_equal_equivalence : forall a b c,
  otype a < HWLOC_OBJ_TYPE_MAX -> otype b < HWLOC_OBJ_TYPE_MAX -> otype c < HWLOC_OBJ_TYPE_MAX ->
  type_cmp_equal a a = true /\
  (type_cmp_equal a b = true -> type_cmp_equal b a = true) /\
  (type_cmp_equal a b = true -> type_cmp_equal b c = true -> type_cmp_equal a c = true).
Proof.
  intros a b c Ha Hb Hc. split; [apply type_cmp_equal_refl, Ha|]. split.
  - apply type_cmp_equal_sym; assumption.
  - apply type_cmp_equal_trans; assumption.
Qed.
Print Assumptions type_cmp_equal_equivalence.

(* Non-vacuity: an asymmetric tree (Machine > {Package > Core > 2 PU ; Core > PU})
   meets the hypotheses; its levels are Machine | Package | Core,Core | PU,PU,PU. *)
Definition ex_d (id ty : N) : dobj :=
  mkDobj id ty 0 id (Some id) PNull PNull PNull PNull PNull PNull PNull 0 0 0 0 0 0 None [] [] [] []
         None None None None 0 0 (-1) (-1) (-1) (-1) (-1) (-1) (-1).
Definition ex_leaf id := Obj (ex_d id HWLOC_OBJ_PU) [] [] [] [].
Definition ex_tree : obj :=
  Obj (ex_d 0 HWLOC_OBJ_MACHINE)
    [Obj (ex_d 1 HWLOC_OBJ_PACKAGE) [Obj (ex_d 2 HWLOC_OBJ_CORE) [ex_leaf 3; ex_leaf 4] [] [] []] [] [] [];
     Obj (ex_d 5 HWLOC_OBJ_CORE) [ex_leaf 6] [] [] []] [] [] [].
Example levels_example :
  types_ok (nflatten ex_tree) /\ pus_are_leaves (nflatten ex_tree) /\ otype ex_tree <> HWLOC_OBJ_PU /\
  option_map (map (map oid)) (levels_of ex_tree) = Some [[0]; [1]; [2; 5]; [3; 4; 6]].
Proof.
  split; [|split; [|split]].
  - repeat constructor.
  - repeat constructor; intros H; try reflexivity; vm_compute in H; discriminate.
  - vm_compute. discriminate.
  - vm_compute. reflexivity.
Qed.

(* ---------- the executable checker is sound for the Prop statement ---------- *)
From HV Require Import Topo.WF.

Theorem wf_check_soundness : forall d, wf_check d = [] -> WF d.
Proof. exact wf_check_sound. Qed.
Print Assumptions wf_check_soundness.

(* ... and for the link clauses (parent/child/sibling pointers, ranks, first/last child, children[], cousins,
   logical indexes, level membership): Topo/WFLinks.v *)
From HV Require Import Topo.WFLinks.
Theorem wf_check_soundness_links : forall d, wf_check d = [] -> WFLinks d.
Proof. exact wf_check_sound_links. Qed.
Print Assumptions wf_check_soundness_links.

(* ... and for the ordering clauses (Topo/WFOrder.v): normal children ordered by the first index of their complete
   cpuset with the empty ones last; memory children with non-empty complete nodesets of strictly increasing first index *)
From HV Require Import Topo.WFOrder.
Theorem wf_check_soundness_order : forall d, wf_check d = [] -> WFOrder d.
Proof. exact wf_check_sound_order. Qed.
Print Assumptions wf_check_soundness_order.

Example children_order_example :
  ordered_first [bs_union (bs_single 0) (bs_single 2); bs_single 1; bs_empty] (-1)%Z false = true /\
  ChildrenOrdered [bs_union (bs_single 0) (bs_single 2); bs_single 1; bs_empty] /\
  ordered_first [bs_single 1; bs_single 0] (-1)%Z false = false /\
  ordered_first [bs_empty; bs_single 0] (-1)%Z false = false.
Proof.
  assert (H : ordered_first [bs_union (bs_single 0) (bs_single 2); bs_single 1; bs_empty] (-1)%Z false = true)
    by (vm_compute; reflexivity).
  split; [exact H|]. split; [exact (proj2 (proj2 (ordered_first_spec _ _ _ H)))|]. split; vm_compute; reflexivity.
Qed.

(* Non-vacuity: the smallest legal topology (Machine > PU, one NUMA node
   attached to the Machine) passes the checker, hence satisfies WF. *)
Definition ex_set1 : option bset := Some (bs_single 0).
Definition ex_machine : dobj :=
  mkDobj 0 HWLOC_OBJ_MACHINE 0 0 (Some 1) PNull (PId 1) (PId 1) PNull PNull PNull PNull 1 1 0 0 0 0
         (Some [PId 1]) [PId 1] [PId 2] [] [] ex_set1 ex_set1 ex_set1 ex_set1 4096 0 (-1) (-1) (-1) (-1) (-1) (-1) (-1).
Definition ex_pu : dobj :=
  mkDobj 1 HWLOC_OBJ_PU 1 0 (Some 2) (PId 0) PNull PNull PNull PNull PNull PNull 0 0 0 0 0 0
         None [] [] [] [] ex_set1 ex_set1 ex_set1 ex_set1 0 0 (-1) (-1) (-1) (-1) (-1) (-1) (-1).
Definition ex_numa : dobj :=
  mkDobj 2 HWLOC_OBJ_NUMANODE HWLOC_TYPE_DEPTH_NUMANODE 0 (Some 3) (PId 0) PNull PNull PNull PNull PNull PNull 0 0 0 0 0 0
         None [] [] [] [] ex_set1 ex_set1 ex_set1 ex_set1 4096 4096 (-1) (-1) (-1) (-1) (-1) (-1) (-1).
Definition ex_dump : dump :=
  mkDump 0 2 3 (map (fun _ => HWLOC_TYPE_FILTER_KEEP_ALL) all_types) ex_set1 ex_set1
    ([mkLevel 0 (Z.of_N HWLOC_OBJ_MACHINE) 1 [PId 0] PNull; mkLevel 1 (Z.of_N HWLOC_OBJ_PU) 1 [PId 1] PNull;
      mkLevel HWLOC_TYPE_DEPTH_NUMANODE (Z.of_N HWLOC_OBJ_NUMANODE) 1 [PId 2] PNull] ++
     map (fun sl => mkLevel (fst sl) (Z.of_N (snd sl)) 0 [] PNull) (tl special_levels))
    (map (fun ty => match special_depth ty with Some sd => sd
                    | None => if ty =? HWLOC_OBJ_MACHINE then 0%Z else if ty =? HWLOC_OBJ_PU then 1%Z else HWLOC_TYPE_DEPTH_UNKNOWN end) all_types)
    [ex_machine; ex_pu; ex_numa].
Example wf_example : wf_check ex_dump = [] /\ WF ex_dump /\ WFLinks ex_dump.
Proof. assert (H : wf_check ex_dump = []) by (vm_compute; reflexivity). split; [exact H|split; [apply wf_check_sound, H|apply wf_check_sound_links, H]]. Qed.

(* ---------- set post-processing of hwloc_discover (model: Topo/Sets.v, tied to the
   C code at the phase boundaries 1 -> 2 and 5 -> final on every loaded topology) ---------- *)
From HV Require Import Topo.Sets Topo.SetsProofs.

(* propagate_nodeset: for every tree, the nodeset of each object is exactly
   inherited + locally attached + normal children's; children inherit. *)
Theorem nodesets_inherited_local_children : forall o pn, NodesetOK pn (propagate_nodeset pn o).
Proof. exact propagate_nodeset_ok. Qed.
Print Assumptions nodesets_inherited_local_children.

Theorem nodeset_exact_union : forall pn d n m i x j,
  NodesetOK pn (Obj d n m i x) ->
  mem j (oset (o_nds d)) = mem j pn || existsb (fun c => mem j (onds c)) m || existsb (fun c => mem j (onds c)) n.
Proof. exact nodeset_ok_exact. Qed.
Print Assumptions nodeset_exact_union.

Theorem child_nodeset_in_parent : forall pn d n m i x c,
  NodesetOK pn (Obj d n m i x) -> In c n -> sub (onds c) (oset (o_nds d)).
Proof. exact nodeset_ok_child_in_parent. Qed.
Print Assumptions child_nodeset_in_parent.

(* fixup_sets: each set included in the parent's and in its complete_
   counterpart; memory children share the parent's cpuset *)
Theorem fixup_sets_inclusions : forall o pcs pccs pnds pcnds,
  PreOK o -> sub pcs pccs -> sub pnds pcnds ->
  FixOK pcs pccs pnds pcnds (fixup_child pcs pccs pnds pcnds o).
Proof. exact fixup_child_ok. Qed.
Print Assumptions fixup_sets_inclusions.

(* remove_unused_sets: every cpuset/nodeset is within the allowed sets *)
Theorem sets_within_allowed : forall acpu anode o, AllowedOK acpu anode (remove_unused_sets acpu anode o).
Proof. exact remove_unused_sets_ok. Qed.
Print Assumptions sets_within_allowed.

(* propagate_total_memory: total_memory is the sum of NUMA local memory below *)
Theorem total_memory_is_sum : forall o, TmOK (propagate_total_memory o).
Proof. exact propagate_total_memory_ok. Qed.
Print Assumptions total_memory_is_sum.

(* Non-vacuity of PreOK/sub hypotheses: the example tree above with sets *)
Example fixup_example :
  let leaf := Obj (set_sets (ex_d 3 HWLOC_OBJ_PU) (Some (bs_single 0)) None None None) [] [] [] [] in
  PreOK leaf /\ sub (bs_single 0) (bs_of_N 3) /\
  FixOK (bs_single 0) (bs_of_N 3) bs_empty bs_empty (fixup_child (bs_single 0) (bs_of_N 3) bs_empty bs_empty leaf).
Proof.
  intros leaf.
  assert (P : PreOK leaf) by (constructor; [intros c H; discriminate|intros c H; discriminate|constructor|constructor]).
  assert (S : sub (bs_single 0) (bs_of_N 3)).
  { intros i H. rewrite mem_single in H. apply N.eqb_eq in H. subst. reflexivity. }
  split; [exact P|]. split; [exact S|]. apply fixup_child_ok; [exact P|exact S|apply sub_refl].
Qed.

(* ---------- remove_empty (model: Topo/Remove.v, tied to the C code at the phase boundary 3 -> 4) ---------- *)
From HV Require Import Topo.Remove Topo.RemoveProofs.

(* after remove_empty no childless object with an empty cpuset (normal) or nodeset (memory) remains *)
Theorem no_empty_leaf_remains : forall o r, fst (remove_empty o) = Some r -> NoEmptyLeaf r.
Proof. exact remove_empty_no_empty_leaf. Qed.
Print Assumptions no_empty_leaf_remains.

(* ---------- insertion of memory objects (model: Topo/MemAttach.v, tied call by call to
   hwloc__find_insert_memory_parent / hwloc___attach_memory_object_by_nodeset through the insertion hook) ---------- *)
From HV Require Import Topo.Insert Topo.MemAttach Topo.MemAttachProofs.

(* attaching a NUMA node or memory-side cache keeps the memory children strictly sorted by the first index of
   their nodeset at every level of the memory subtree, for every parent and every new object *)
Theorem memory_attach_keeps_sorted : forall parent o, MemOK parent -> MemOK (fst (attach_by_nodeset parent o)).
Proof. exact attach_keeps_memory_sorted. Qed.
Print Assumptions memory_attach_keeps_sorted.

(* it touches nothing else of the parent: payload, normal, I/O and Misc children are the same *)
Theorem memory_attach_keeps_other_children : forall parent o,
  let p' := fst (attach_by_nodeset parent o) in
  odata p' = odata parent /\ onch p' = onch parent /\ oich p' = oich parent /\ oxch p' = oxch parent.
Proof. exact attach_keeps_other_children. Qed.
Print Assumptions memory_attach_keeps_other_children.

(* a successful attachment adds exactly the new object (no memory object lost, duplicated or altered);
   a refused one (identical NUMA node, memory-side cache of the same depth) is the identity *)
Theorem memory_attach_adds_exactly_obj : forall parent o, snd (attach_by_nodeset parent o) = AOk ->
  Permutation (map odata (mflatten (fst (attach_by_nodeset parent o)))) (odata o :: map odata (mflatten parent)).
Proof. exact attach_ok_adds_exactly_obj. Qed.
Print Assumptions memory_attach_adds_exactly_obj.

Theorem memory_attach_refusal_is_identity : forall parent o,
  snd (attach_by_nodeset parent o) = ANull -> fst (attach_by_nodeset parent o) = parent.
Proof. exact attach_null_is_identity. Qed.
Print Assumptions memory_attach_refusal_is_identity.

(* the parent search goes down through the first child including the cpuset until equality or no such child *)
Theorem memory_parent_search_spec : forall root up cs, bs_is_empty cs = false -> Cov cs root (fst (covering root up cs)).
Proof. exact covering_spec. Qed.
Print Assumptions memory_parent_search_spec.

Theorem memory_parent_without_groups_keeps_tree : forall dms ggp root o,
  fst (find_insert_memory_parent false dms ggp root o) = root.
Proof. exact find_parent_without_groups_keeps_tree. Qed.
Print Assumptions memory_parent_without_groups_keeps_tree.

(* Non-vacuity: a parent with NUMA nodes P#0 and P#2; P#1 goes between them, a memory-side cache for P#2 goes
   above it, a second P#2 is refused; the hypotheses of the theorems hold on these states *)
Definition ex_mem (id ty os : N) (depth : Z) : obj :=
  Obj (mkDobj id ty 0%Z os (Some id) PNull PNull PNull PNull PNull PNull PNull 0 0 0 0 0 0 None [] [] [] []
         (Some (bs_of_N 3)) None (Some (bs_single os)) None 0 0 depth (-1)%Z (-1)%Z (-1)%Z (-1)%Z (-1)%Z (-1)%Z) [] [] [] [].
Definition ex_mparent : obj :=
  Obj (ex_d 0 HWLOC_OBJ_MACHINE) [ex_leaf 3; ex_leaf 4] [ex_mem 10 HWLOC_OBJ_NUMANODE 0 (-1); ex_mem 11 HWLOC_OBJ_NUMANODE 2 (-1)] [] [].
Example memory_attach_example :
  MemOK ex_mparent /\
  map (fun c => (oid c, map oid (omch c))) (omch (fst (attach_by_nodeset ex_mparent (ex_mem 12 HWLOC_OBJ_NUMANODE 1 (-1))))) = [(10, []); (12, []); (11, [])] /\
  map (fun c => (oid c, map oid (omch c))) (omch (fst (attach_by_nodeset ex_mparent (ex_mem 13 HWLOC_OBJ_MEMCACHE 2 1)))) = [(10, []); (13, [11])] /\
  attach_by_nodeset ex_mparent (ex_mem 14 HWLOC_OBJ_NUMANODE 2 (-1)) = (ex_mparent, ANull).
Proof.
  split; [|vm_compute; repeat split].
  constructor; [|repeat constructor].
  repeat constructor; unfold mlt; vm_compute; reflexivity.
Qed.

(* ---------- the synthetic backend end to end (parser model: Text/Synthetic.v, C07; request generation:
   Topo/SynthBuild.v, tied to the objects the backend really hands to the core on every traced synthetic load) ---------- *)
From HV Require Import Base.Bytes Topo.SynthBuild Topo.SynthBuildProofs.
From HV Require Text.Synthetic.
From Coq Require Import String.

(* For every parsed description whose level array has the parser's shape (inner levels of arity >= 1, then the
   PU level) and every filter assignment: the root cpuset is exactly the set of PU indexes drawn; every requested
   object's cpuset is included in it; and when those indexes are pairwise distinct the requested cpusets are
   pairwise nested or disjoint - the hypothesis under which insertion by cpuset (C02: insert_keeps_order) yields
   "every cpuset is the disjoint union of the children's cpusets". *)
Theorem synthetic_requests_are_laminar : forall keep sy l0 below,
  Synthetic.sy_levels sy = l0 :: below -> shape_ok below ->
  exists total,
    let '(set, rs) := requests keep sy in
    in_range below 0 total set /\
    Forall (fun r => SetsProofs.sub (r_cs r) set) rs /\
    (inj_on below total -> Laminar rs).
Proof. exact synthetic_requests_spec. Qed.
Print Assumptions synthetic_requests_are_laminar.

(* the index hypothesis holds without an explicit index list, and with one that has no duplicate *)
Theorem synthetic_default_indexes_distinct : forall levels bound,
  Synthetic.lv_iarr (leaf_of levels) = None -> Synthetic.lv_type (leaf_of levels) = HWLOC_OBJ_PU -> inj_on levels bound.
Proof. exact default_indexes_distinct. Qed.
Print Assumptions synthetic_default_indexes_distinct.

Theorem synthetic_array_indexes_distinct : forall levels bound a,
  Synthetic.lv_iarr (leaf_of levels) = Some a -> NoDup (firstn (N.to_nat bound) a) -> (N.to_nat bound <= List.length a)%nat ->
  inj_on levels bound.
Proof. exact array_indexes_distinct. Qed.
Print Assumptions synthetic_array_indexes_distinct.

(* Non-vacuity: "pack:2 core:2 pu:2" parses, its levels have the required shape, and the requests are the 8 PUs
   (each a singleton), then cores, packages and the default NUMA node, children first *)
Example synthetic_requests_example :
  exists sy l0 below,
    Synthetic.parse Synthetic.Cur (bytes_of_string "pack:2 core:2 pu:2" ++ [0]) = Synthetic.Ret sy /\
    Synthetic.sy_levels sy = l0 :: below /\ shape_ok below /\
    map (fun r => (r_type r, r_cs r)) (snd (requests (fun _ => true) sy)) =
      [(HWLOC_OBJ_PU, bs_of_N 1); (HWLOC_OBJ_PU, bs_of_N 2); (HWLOC_OBJ_CORE, bs_of_N 3);
       (HWLOC_OBJ_PU, bs_of_N 4); (HWLOC_OBJ_PU, bs_of_N 8); (HWLOC_OBJ_CORE, bs_of_N 12); (HWLOC_OBJ_PACKAGE, bs_of_N 15);
       (HWLOC_OBJ_PU, bs_of_N 16); (HWLOC_OBJ_PU, bs_of_N 32); (HWLOC_OBJ_CORE, bs_of_N 48);
       (HWLOC_OBJ_PU, bs_of_N 64); (HWLOC_OBJ_PU, bs_of_N 128); (HWLOC_OBJ_CORE, bs_of_N 192); (HWLOC_OBJ_PACKAGE, bs_of_N 240);
       (HWLOC_OBJ_NUMANODE, bs_of_N 255)].
Proof.
  eexists. eexists. eexists. split; [vm_compute; reflexivity|]. split; [vm_compute; reflexivity|]. split.
  - repeat first [apply shape_leaf; vm_compute; reflexivity | apply shape_inner; [vm_compute; discriminate|]].
  - vm_compute. reflexivity.
Qed.

(* ---------- the Linux backend's CPU discovery (model: Topo/LinuxCpu.v = look_sysfscpu over the CONTENTS of the
   sysfs files, composed with the C18 models of the two sysfs parsers and the strtoul/atoi models; tied request by
   request to the objects the backend hands to the core on every traced Linux load) ---------- *)
From HV Require Import Topo.LinuxCpu Topo.LinuxCpuProofs.

(* whatever the files contain (well formed or not), under every filter assignment: every requested object's cpuset
   is inside the set of online cpus that have a topology directory ... *)
Theorem linux_cpu_requests_within_online_cpus : forall keep v,
  Forall (fun r => SetsProofs.sub (q_cs r) (interesting v)) (linux_cpu_requests keep v).
Proof. exact linux_requests_within_interesting. Qed.
Print Assumptions linux_cpu_requests_within_online_cpus.

(* ... and every such cpu gets its PU request: type PU, os_index = the cpu number, cpuset = its singleton *)
Theorem linux_cpu_requests_have_every_pu : forall keep v c,
  In c (v_cpus v) -> mem (c_n c) (interesting v) = true ->
  exists c', c_n c' = c_n c /\ In (simple_req HWLOC_OBJ_PU (c_n c') (bs_single (c_n c'))) (linux_cpu_requests keep v).
Proof. exact linux_requests_have_every_pu. Qed.
Print Assumptions linux_cpu_requests_have_every_pu.

(* Non-vacuity: two online cpus sharing a core and a package ("00000003" masks, ids "0"), cpu 2 offline *)
Definition ex_cpu (n : N) : cpu_files :=
  let f (s : string) := Some (bytes_of_string s ++ [10]) in
  mkCPU n true None (f "00000003"%string) None None (f "00000007"%string) None None (f "0"%string) None None (f "0"%string) None None [].
Definition ex_view : lview := mkView false false false false false false (Some (bytes_of_string "0-1"%string ++ [10])) [ex_cpu 1; ex_cpu 0; ex_cpu 2].
Example linux_cpu_requests_example :
  interesting ex_view = bs_of_N 3 /\
  map (fun r => (q_type r, q_os r, q_cs r)) (linux_cpu_requests (fun _ => true) ex_view) =
    [(HWLOC_OBJ_CORE, 0, bs_of_N 3); (HWLOC_OBJ_PACKAGE, 0, bs_of_N 3); (HWLOC_OBJ_PU, 0, bs_of_N 1); (HWLOC_OBJ_PU, 1, bs_of_N 2)].
Proof. split; vm_compute; reflexivity. Qed.

(* ---------- insertion by cpuset DURING discovery (Topo/DiscInsertProofs.v; the C02 theorem insert_keeps_order
   speaks about a loaded, covered topology and about the outcome "inserted" only).  While a backend inserts,
   nothing is covered yet, the root cpuset only holds the PUs met so far, and many calls end by merging OBJ
   into an existing object.  [tree_ord]: at every level the sibling cpusets are pairwise disjoint, sorted by
   first index and included in the parent's; [disc_ord]: the same below a root whose own cpuset is not yet
   meaningful.  Every traced insertion of every run is evaluated against the hypotheses (executable forms
   disc_ordb / disc_hypb, proved sound below) and the conclusion is checked on the C tree after the call. ---------- *)
From HV Require Import Topo.Insert Topo.InsertProofs Topo.DiscInsertProofs.

(* one call, below any object, whatever the outcome (linked, merged into an equal object, replacing a Group)
   except the put-back failure *)
Theorem insertion_keeps_order_every_outcome : forall dms dm_new od, wfk od -> nonempty (ApiProofs.dcs od) -> forall cur,
  tree_ord cur -> defect_free dms dm_new od cur ->
  forall o cur' out, odata o = od -> InsertProofs.sub (ApiProofs.dcs od) (okey cur) ->
  insert_by_cpuset dms dm_new cur o = (cur', out) -> out <> OFail ->
  tree_ord cur' /\ odata cur' = odata cur.
Proof. exact insert_keeps_ord. Qed.
Print Assumptions insertion_keeps_order_every_outcome.

(* a whole discovery: any sequence of hwloc__insert_object_by_cpuset(topology, NULL, obj) calls *)
Theorem discovery_insertions_keep_order : forall root steps root',
  disc_run root steps root' -> disc_ord root -> disc_ord root' /\ odata root' = odata root.
Proof. exact discovery_keeps_ord. Qed.
Print Assumptions discovery_insertions_keep_order.

(* the executable forms used by the tie are sound *)
Theorem discovery_hypotheses_executable : forall root steps root',
  disc_ordb root = true -> disc_runb root steps = Some root' -> disc_ord root' /\ odata root' = odata root.
Proof. exact discovery_runb_keeps_ord. Qed.
Print Assumptions discovery_hypotheses_executable.

(* Non-vacuity: from the bare root, a container first, PUs descending into it, a Core taking two PUs one level
   down, PUs out of order, a second Core of the same set merged into the first, a second Package *)
Example discovery_insertions_example :
  exists r, disc_runb bare_root example_steps = Some r /\ disc_ord r /\
            map (fun c => List.length (onch c)) (onch r) = [2; 1]%nat /\ List.length (nflatten r) = 10%nat.
Proof. exact discovery_example. Qed.

(* ---------- what the insertions of a discovery keep, and the cover clause (Topo/DiscPresenceProofs.v) ---------- *)
From HV Require Import Topo.DiscPresenceProofs Topo.DiscSourcesProofs.

(* one call: nothing invented, nothing lost except a mergeable Group giving way to an object with the same
   cpuset, OBJ's cpuset is the cpuset of some object afterwards, OBJ itself is there when the call says so *)
Theorem insertion_keeps_objects : forall dms dm_new root o root' out,
  disc_ord root -> disc_hyp dms dm_new root o ->
  insert_by_cpuset dms dm_new root o = (root', out) -> out <> OFail ->
  objects_kept (odata o) out root root'.
Proof. exact insert_root_keeps_objects. Qed.
Print Assumptions insertion_keeps_objects.

(* a whole discovery: every object of the final tree was requested (or was there), cpusets never disappear,
   every requested cpuset is the cpuset of some object of the final tree *)
Theorem discovery_insertions_keep_objects : forall root steps root',
  disc_run root steps root' -> disc_ord root ->
  (forall y, In y (npay root') -> In y (npay root) \/ exists s, In s steps /\ y = odata (step_obj s)) /\
  (forall k, has_key root k -> has_key root' k) /\
  (forall s, In s steps -> has_key root' (ApiProofs.dcs (odata (step_obj s)))).
Proof. exact discovery_keeps_objects. Qed.
Print Assumptions discovery_insertions_keep_objects.

(* in an ordered tree two objects that share a cpu are on one branch *)
Theorem ordered_tree_one_branch : forall root a b j, disc_ord root ->
  In a (nflattens (onch root)) -> In b (nflattens (onch root)) ->
  mem j (okey a) = true -> mem j (okey b) = true -> In a (nflatten b) \/ In b (nflatten a).
Proof. exact disc_one_branch. Qed.
Print Assumptions ordered_tree_one_branch.

(* THE COVER CLAUSE, for every sequence of insertions: from the root as setup_defaults leaves it, when every cpu
   of every requested cpuset is also requested alone (the PUs), each object below the root has, for each of its
   cpus, a child holding that cpu - unless its cpuset is that single cpu.  With discovery_insertions_keep_order
   (children pairwise disjoint, included in the parent): the cpuset of every object that is not a single cpu is
   the disjoint union of its children's cpusets. *)
Theorem discovery_children_cover_cpusets : forall root steps root',
  disc_run root steps root' -> onch root = [] -> (forall j, mem j (ApiProofs.dcs (odata root)) = false) ->
  (forall s j, In s steps -> mem j (ApiProofs.dcs (odata (step_obj s))) = true ->
               exists s', In s' steps /\ singleton_of (ApiProofs.dcs (odata (step_obj s'))) j) ->
  forall X j, In X (nflattens (onch root')) -> mem j (okey X) = true ->
    (exists c, In c (onch X) /\ mem j (okey c) = true) \/ (forall k, mem k (okey X) = true -> k = j).
Proof. exact discovery_covers. Qed.
Print Assumptions discovery_children_cover_cpusets.

(* the executable form evaluated on every traced load (cover=1 in the driver's output) is sound *)
Theorem discovery_cover_executable : forall steps r,
  disc_runb bare_root steps = Some r -> singletons_okb (map (fun s => ApiProofs.dcs (odata (step_obj s))) steps) = true ->
  forall X j, In X (nflattens (onch r)) -> mem j (okey X) = true ->
    (exists c, In c (onch X) /\ mem j (okey c) = true) \/ (forall k, mem k (okey X) = true -> k = j).
Proof. exact discovery_covers_executable. Qed.
Print Assumptions discovery_cover_executable.

(* the modelled backends meet the hypothesis "every cpu of every requested cpuset is requested alone":
   the synthetic backend whenever the leaf level is kept (PUs cannot be filtered out) ... *)
Theorem synthetic_requests_request_every_cpu_alone : forall keep sy l0 below,
  Synthetic.sy_levels sy = l0 :: below -> shape_ok below -> keep (Synthetic.lv_type (leaf_of below)) = true ->
  let '(set, rs) := requests keep sy in
  forall r j, In r rs -> mem j (r_cs r) = true -> exists r', In r' rs /\ r_cs r' = bs_single j.
Proof. exact synthetic_requests_have_singletons. Qed.
Print Assumptions synthetic_requests_request_every_cpu_alone.

(* ... and the Linux CPU discovery whatever the sysfs files contain *)
Theorem linux_cpu_requests_request_every_cpu_alone : forall keep v r j,
  In r (linux_cpu_requests keep v) -> mem j (q_cs r) = true ->
  exists r', In r' (linux_cpu_requests keep v) /\ q_cs r' = bs_single j /\ q_type r' = HWLOC_OBJ_PU.
Proof. exact linux_requests_have_singletons. Qed.
Print Assumptions linux_cpu_requests_request_every_cpu_alone.

Example discovery_cover_example :
  exists r, disc_runb bare_root (firstn 8 example_steps) = Some r /\
    (forall X j, In X (nflattens (onch r)) -> mem j (okey X) = true ->
       (exists c, In c (onch X) /\ mem j (okey c) = true) \/ (forall k, mem k (okey X) = true -> k = j)) /\
    map (fun c => (o_type (odata c), okey c)) (nflattens (onch r)) =
      [(HWLOC_OBJ_PACKAGE, bs_of_N 15); (HWLOC_OBJ_CORE, bs_of_N 3); (HWLOC_OBJ_PU, bs_of_N 1); (HWLOC_OBJ_PU, bs_of_N 2);
       (HWLOC_OBJ_CORE, bs_of_N 12); (HWLOC_OBJ_PU, bs_of_N 4); (HWLOC_OBJ_PU, bs_of_N 8)].
Proof. exact discovery_covers_example. Qed.

(* ---------- the put-back path is never taken by a backend whose requested cpusets are pairwise nested or
   disjoint (Topo/DiscLaminarProofs.v); the synthetic backend is one (synthetic_requests_are_laminar) ---------- *)
From HV Require Import Topo.DiscLaminarProofs.

Theorem laminar_requests_never_put_back : forall dms dm_new od, wfk od -> forall cur,
  Forall (fun c => wfk (odata c) /\ DiscLaminarProofs.lam2 (ApiProofs.dcs od) (okey c)) (nflattens (onch cur)) ->
  forall o, odata o = od -> snd (insert_by_cpuset dms dm_new cur o) <> OFail.
Proof. exact laminar_insert_never_fails. Qed.
Print Assumptions laminar_requests_never_put_back.

(* hence a discovery whose requests are pairwise nested or disjoint IS a run in the sense of the theorems above
   as soon as the other hypotheses (usable cpusets, no unmergeable equal Groups) hold on the states it goes through *)
Theorem laminar_discovery_is_a_run : forall root steps,
  disc_ord root -> onch root = [] ->
  ForallOrdPairs (fun a b => DiscLaminarProofs.lam2 (key_of a) (key_of b) /\ DiscLaminarProofs.lam2 (key_of b) (key_of a)) steps ->
  (forall pre dms dm o post, steps = pre ++ (dms, dm, o) :: post -> disc_hyp dms dm (run_model root pre) o) ->
  disc_run root steps (run_model root steps).
Proof. exact laminar_discovery_runs. Qed.
Print Assumptions laminar_discovery_is_a_run.

Example laminar_put_back_example :
  exists r, disc_runb bare_root example_steps = Some r /\
    laminar_withb (odata (rq HWLOC_OBJ_GROUP 20 255)) r = true /\
    snd (insert_by_cpuset [] false r (rq HWLOC_OBJ_GROUP 20 255)) = OInserted /\
    laminar_withb (odata (rq HWLOC_OBJ_GROUP 20 6)) r = false /\
    snd (insert_by_cpuset [] false r (rq HWLOC_OBJ_GROUP 20 6)) = OFail.
Proof. exact laminar_never_fails_example. Qed.

(* ---------- the x86 backend's object construction (model: Topo/X86.v = summarize() under full discovery, as a
   function of the per-PU information gathered by CPUID, printed by a guarded hook at the start of summarize();
   tied request by request to the objects the backend hands to the core on every x86 load of a run) ---------- *)
From HV Require Import Topo.X86 Topo.X86Proofs.

(* whatever CPUID reported: every PU that was looked at gets its PU request (type PU, os_index = its number, cpuset =
   its singleton) and no other PU request exists (the list is empty only when no PU was looked at) *)
Theorem x86_pu_requests_are_the_looked_at_pus : forall keep v rs, x86_requests keep v = Some rs ->
  forall i, (In (simple_req HWLOC_OBJ_PU i (bs_single i)) rs <-> (i < nbprocs v /\ xp_present (proc v i) = true)) \/ rs = [].
Proof. exact x86_pu_requests. Qed.
Print Assumptions x86_pu_requests_are_the_looked_at_pus.

(* the grouping loop, for any "skip" and any symmetric and transitive "same": pairwise disjoint classes *)
Theorem x86_grouping_loop_classes_disjoint : forall skip same,
  (forall a b, same a b = same b a) -> (forall a b c, same a b = true -> same b c = true -> same a c = true) ->
  forall cands rem, ForallOrdPairs (fun p q => X86Proofs.disj (snd p) (snd q)) (classes skip same cands rem).
Proof. exact classes_disjoint. Qed.
Print Assumptions x86_grouping_loop_classes_disjoint.

(* Packages are pairwise disjoint and every looked-at PU is in one; Dies / NUMA nodes / Groups (keyed by package
   and one id) and Cores (package, node, core) are pairwise disjoint *)
Theorem x86_packages_partition_the_looked_at_pus : forall v,
  ForallOrdPairs (fun p q => X86Proofs.disj (snd p) (snd q)) (by_ids v (fun _ => false) (eq_id v PKG)) /\
  (forall i, i < nbprocs v -> xp_present (proc v i) = true ->
             exists l s, In (l, s) (by_ids v (fun _ => false) (eq_id v PKG)) /\ mem i s = true).
Proof. intros v. split; [apply x86_package_sets_disjoint|apply x86_every_looked_at_pu_has_a_package]. Qed.
Print Assumptions x86_packages_partition_the_looked_at_pus.

Theorem x86_keyed_and_core_classes_disjoint : forall v,
  (forall k, ForallOrdPairs (fun p q => X86Proofs.disj (snd p) (snd q)) (by_ids v (no_id v k) (fun i j => eq_id v PKG i j && eq_id v k i j))) /\
  ForallOrdPairs (fun p q => X86Proofs.disj (snd p) (snd q))
                 (by_ids v (no_id v CORE) (fun i j => eq_id v PKG i j && eq_id v NODE i j && eq_id v CORE i j)).
Proof. intros v. split; [intros k; apply x86_keyed_sets_disjoint|apply x86_core_sets_disjoint]. Qed.
Print Assumptions x86_keyed_and_core_classes_disjoint.

(* members of a class are indexes below nbprocs that are not skipped and share the leader's key; the leader was
   looked at.  (Members need NOT have been looked at: the C loop runs over all indexes; the example of X86Proofs
   shows a Package swallowing such a PU when its ids happen to match.) *)
Theorem x86_class_members_share_the_key : forall v skip same l s, In (l, s) (by_ids v skip same) ->
  l < nbprocs v /\ xp_present (proc v l) = true /\ skip l = false /\
  forall j, mem j s = true -> j < nbprocs v /\ skip j = false /\ same l j = true.
Proof. exact x86_class_members. Qed.
Print Assumptions x86_class_members_share_the_key.

(* every cpu of every requested cpuset is an index below nbprocs; when no PU was skipped (no restriction to a
   binding, every dump file readable) the x86 request list meets the hypothesis of discovery_children_cover_cpusets *)
Theorem x86_request_cpus_below_nbprocs : forall keep v rs r j,
  x86_requests keep v = Some rs -> In r rs -> mem j (q_cs r) = true -> j < nbprocs v.
Proof. exact x86_request_bits_below_nbprocs. Qed.
Print Assumptions x86_request_cpus_below_nbprocs.

Theorem x86_requests_request_every_cpu_alone : forall keep v rs,
  x86_requests keep v = Some rs -> (forall i, i < nbprocs v -> xp_present (proc v i) = true) ->
  forall r j, In r rs -> mem j (q_cs r) = true ->
  exists r', In r' rs /\ q_cs r' = bs_single j /\ q_type r' = HWLOC_OBJ_PU.
Proof. exact x86_requests_have_singletons. Qed.
Print Assumptions x86_requests_request_every_cpu_alone.

Example x86_requests_nonvacuous :
  match x86_requests (fun _ => true) ex_xview with
  | Some rs => List.length rs = 19%nat /\ In (simple_req HWLOC_OBJ_PU 6 (bs_single 6)) rs /\ ~ In (simple_req HWLOC_OBJ_PU 5 (bs_single 5)) rs
  | None => False
  end.
Proof. vm_compute. split; [reflexivity|]. split; [tauto|]. intuition discriminate. Qed.

(* ---------- a FAILED insertion (put-back path) is the identity (Topo/DiscFailProofs.v) ---------- *)
From HV Require Import Topo.DiscFailProofs.

(* on an ordered tree whose objects are distinct, at any depth: when hwloc___insert_object_by_cpuset gives up on an
   intersection without inclusion, every child OBJ had adopted is back at its old place, whatever lay between
   them, and nothing else moved: the tree is exactly what it was *)
Theorem failed_insertion_leaves_the_tree_unchanged : forall dms dm_new od, wfk od -> forall cur,
  tree_ord cur -> defect_free dms dm_new od cur -> distinct_children cur ->
  forall o cur', odata o = od -> insert_by_cpuset dms dm_new cur o = (cur', OFail) -> cur' = cur.
Proof. exact failed_insertion_is_identity. Qed.
Print Assumptions failed_insertion_leaves_the_tree_unchanged.

(* the scan that gives the adopted children back rebuilds any shuffle of two sorted lists *)
Theorem putback_rebuilds_the_shuffle : forall T K L,
  Interleave K T L -> (forall t, In t T -> sep L t) -> putback K T = L.
Proof. exact putback_interleave. Qed.
Print Assumptions putback_rebuilds_the_shuffle.

Example failed_insertion_nonvacuous :
  tree_ordb fail_tree = true /\
  insert_by_cpuset [] false fail_tree (rq HWLOC_OBJ_GROUP 9 93) = (fail_tree, OFail) /\
  snd (insert_by_cpuset [] false fail_tree (rq HWLOC_OBJ_GROUP 9 85)) = OInserted.
Proof. exact failed_insertion_example. Qed.

(* ---------- special levels (model: Obj.special_level, tied to the C level arrays on every dump by levels_agree) ---------- *)
(* every object of a special type, wherever it hangs (below normal, memory, I/O or Misc objects - seeded change C01j
   forgot the Misc children of memory-side caches), is in the level of its type, and a level holds nothing else *)
Theorem special_level_holds_exactly_its_type : forall root ty o,
  In o (special_level root ty) <-> In o (flatten root) /\ otype o = ty.
Proof.
  intros root ty o. unfold special_level. rewrite filter_In. split; intros [H1 H2]; (split; [exact H1|]).
  - apply N.eqb_eq, H2.
  - apply N.eqb_eq, H2.
Qed.
Print Assumptions special_level_holds_exactly_its_type.

(* a Misc object below a memory-side cache below a Package is in the Misc level *)
From HV Require Import Topo.Api.
Example special_level_example :
  let misc := Obj (fresh_dobj HWLOC_OBJ_MISC 5 None None None None (-1)%Z (-1)%Z) [] [] [] [] in
  let mc := Obj (fresh_dobj HWLOC_OBJ_MEMCACHE 4 (Some (bs_of_N 3)) None (Some (bs_of_N 1)) None (-1)%Z (-1)%Z)
                [] [Obj (fresh_dobj HWLOC_OBJ_NUMANODE 6 (Some (bs_of_N 3)) None (Some (bs_of_N 1)) None (-1)%Z (-1)%Z) [] [] [] []] [] [misc] in
  let root := Obj (fresh_dobj HWLOC_OBJ_MACHINE 1 (Some (bs_of_N 3)) None None None (-1)%Z (-1)%Z)
                  [Obj (fresh_dobj HWLOC_OBJ_PACKAGE 2 (Some (bs_of_N 3)) None None None (-1)%Z (-1)%Z) [] [mc] [] []] [] [] [] in
  map oid (special_level root HWLOC_OBJ_MISC) = map oid [misc] /\ List.length (special_level root HWLOC_OBJ_NUMANODE) = 1%nat.
Proof. vm_compute. split; reflexivity. Qed.

(* ---------- the load-time KEEP_STRUCTURE level merge (model: Restrict.keep_structure / merge_tree, run against
   hwloc_filter_levels_keep_structure on every load and restrict with such a filter; proofs: Topo/MergeProofs.v) ---------- *)
From HV Require Import Topo.Restrict Topo.MergeProofs.

(* the pass loses nothing and invents nothing: as a multiset, the object payloads before the pass are those after it
   plus the dropped ones - every memory, I/O and Misc child of both merged levels survives exactly once (seeded
   changes C01d, C01h and C02a each lost or misplaced one of those lists) *)
Theorem level_merge_keeps_every_object_once : forall filters dm root root',
  keep_structure filters dm root = Some root' ->
  Permutation (pays root) (pays root' ++ keep_structure_dropped filters dm root).
Proof. exact keep_structure_payloads. Qed.
Print Assumptions level_merge_keeps_every_object_once.

(* one merge: what is dropped is one payload per merged (parent, only child) pair *)
Theorem level_merge_step_keeps_every_object_once : forall ids rc o,
  Permutation (pays o) (pays (merge_tree ids rc o) ++ dropped ids rc o).
Proof. exact merge_tree_payloads. Qed.
Print Assumptions level_merge_step_keeps_every_object_once.

(* parent level removed: only listed objects (the removed level) are dropped *)
Theorem level_merge_drops_only_the_parent_level : forall ids o,
  Forall (fun d => memN (o_id d) ids = true) (dropped ids false o).
Proof. exact dropped_replaceparent. Qed.
Print Assumptions level_merge_drops_only_the_parent_level.

(* child level removed: only the single normal children of listed objects are dropped *)
Theorem level_merge_drops_only_the_child_level : forall ids o,
  Forall (only_child_of_listed ids o) (dropped ids true o).
Proof. exact dropped_replacechild. Qed.
Print Assumptions level_merge_drops_only_the_child_level.

(* never a memory, I/O or Misc object *)
Theorem level_merge_drops_only_normal_objects : forall ids rc o d,
  In d (dropped ids rc o) -> In d (map odata (nflatten o)).
Proof. exact dropped_are_normal. Qed.
Print Assumptions level_merge_drops_only_normal_objects.

(* the memory children of every normal object stay ordered by the first bit of their complete nodeset *)
Theorem level_merge_keeps_memory_children_sorted : forall filters dm root root',
  keep_structure filters dm root = Some root' -> mem_sorted_tree root -> mem_sorted_tree root'.
Proof. exact keep_structure_memory_sorted. Qed.
Print Assumptions level_merge_keeps_memory_children_sorted.

Example level_merge_nonvacuous :
  mem_sorted_tree ex_tree /\
  map o_id (pays ex_tree) = [1; 2; 3; 11; 12; 10] /\
  map o_id (pays (merge_tree [1] false ex_tree)) = [2; 3; 11; 10; 12] /\
  map o_id (dropped [1] false ex_tree) = [1] /\
  map o_id (pays (merge_tree [1] true ex_tree)) = [1; 3; 11; 10; 12] /\
  map o_id (dropped [1] true ex_tree) = [2].
Proof. exact merge_tree_example. Qed.

(* a removed PARENT level leaves the normal children of every object ordered by the first index of their complete
   cpusets, provided every removed parent starts at the same index as its only child - the test the pass makes since
   fix "children out of order after a parent level with a wider complete cpuset was removed" (found while attempting
   this proof without the hypothesis) *)
Theorem level_merge_keeps_children_ordered : forall ids o, guard ids o -> ord_tree o -> ord_tree (merge_tree ids false o).
Proof. exact merge_tree_children_ordered. Qed.
Print Assumptions level_merge_keeps_children_ordered.

(* the level-wise test the repaired pass makes gives that hypothesis when the identifiers of the normal objects are
   distinct, so the whole pass (any number of merged levels, parent or child removed) keeps every object's normal
   children in order *)
Theorem level_merge_test_gives_the_hypothesis : forall root ls i l1 l2 chk,
  levels_of root = Some ls -> nth_error ls (Nat.pred i) = Some l1 -> nth_error ls i = Some l2 ->
  NoDup (map oid (nflatten root)) ->
  levels_same_structure l1 l2 chk = true -> parent_first_differs l1 l2 = false ->
  guard (map oid l1) root.
Proof. exact level_guard. Qed.
Print Assumptions level_merge_test_gives_the_hypothesis.

Theorem level_merge_pass_keeps_children_ordered : forall filters dm root root',
  keep_structure filters dm root = Some root' ->
  NoDup (nid root) -> ord_tree root -> ord_tree root' /\ NoDup (nid root').
Proof. exact keep_structure_children_ordered. Qed.
Print Assumptions level_merge_pass_keeps_children_ordered.

Example level_merge_pass_nonvacuous :
  NoDup (nid wide_tree) /\ ord_tree wide_tree /\ NoDup (nid ex_tree) /\ ord_tree ex_tree.
Proof. exact merge_pass_example. Qed.

(* without the hypothesis the statement is false: two Packages in order, their Cores not; the repaired pass keeps the
   Package level of this tree *)
Example level_merge_order_refuted_without_guard :
  forallb kids_orderedb (nflatten wide_tree) = true /\
  forallb kids_orderedb (nflatten (merge_tree [1; 4] false wide_tree)) = false /\
  let filters := map (fun ty => if ty =? HWLOC_OBJ_PACKAGE then HWLOC_TYPE_FILTER_KEEP_STRUCTURE else HWLOC_TYPE_FILTER_KEEP_ALL)
                     (map N.of_nat (seq 0 (N.to_nat HWLOC_OBJ_TYPE_MAX))) in
  match keep_structure filters [] wide_tree with
  | Some r => map o_id (pays r) = map o_id (pays wide_tree) /\ forallb kids_orderedb (nflatten r) = true
  | None => False
  end.
Proof. exact merge_order_refuted. Qed.

(* ---------- the ordering clause: checker <-> statement, and the statement through the merging pass ---------- *)
From HV Require Import Topo.WFOrder Topo.MergeOrderLink.

(* the executable test behind the "children-order" clause of wf_check accepts EXACTLY the lists that meet the Prop
   clause of WFOrder (soundness: wf_check_sound_order above; completeness: the checker cannot raise this clause on a
   topology whose children are in order) *)
Theorem children_order_test_is_the_clause : forall l, ordered_first l (-1)%Z false = true <-> ChildrenOrdered l.
Proof. exact ordered_first_iff. Qed.
Print Assumptions children_order_test_is_the_clause.

Theorem memory_children_order_test_is_the_clause : forall l,
  strictly_ordered_first l (-1)%Z = true <-> MemChildrenOrdered l.
Proof. exact strictly_ordered_first_iff. Qed.
Print Assumptions memory_children_order_test_is_the_clause.

(* the invariant of the level-merging proofs is that clause on every normal object of the tree *)
Theorem merge_invariant_is_the_order_clause : forall o,
  ord_tree o <-> forall p, In p (nflatten o) -> ChildrenOrdered (kid_sets p).
Proof. exact ord_tree_iff. Qed.
Print Assumptions merge_invariant_is_the_order_clause.

(* hence the load-time KEEP_STRUCTURE pass, stated with the clause of the well-formedness theorem on both sides *)
Theorem level_merge_pass_keeps_the_order_clause : forall filters dm root root',
  keep_structure filters dm root = Some root' ->
  NoDup (nid root) ->
  (forall p, In p (nflatten root) -> ChildrenOrdered (kid_sets p)) ->
  forall p, In p (nflatten root') -> ChildrenOrdered (kid_sets p).
Proof. exact keep_structure_children_order_prop. Qed.
Print Assumptions level_merge_pass_keeps_the_order_clause.

Example order_clause_nonvacuous :
  (forall p, In p (nflatten wide_tree) -> ChildrenOrdered (kid_sets p)) /\
  ~ (forall p, In p (nflatten (merge_tree [1%N; 4%N] false wide_tree)) -> ChildrenOrdered (kid_sets p)).
Proof. exact children_order_clause_nonvacuous. Qed.

(* ---------- completeness of the checker's building blocks (soundness: wf_check_sound above) ---------- *)
From HV Require Import Topo.WFComplete.

(* the uniqueness test (PU/NUMA os_index, gp_index) accepts exactly the duplicate-free lists *)
Theorem uniqueness_test_is_nodup : forall l, nodup_N l = true <-> NoDup l.
Proof. exact nodup_N_iff. Qed.
Print Assumptions uniqueness_test_is_nodup.

(* the numbering test accepts exactly the object arrays numbered k, k+1, ... *)
Theorem numbering_test_is_sequential : forall l k,
  ids_sequential l k = true <-> (forall i o, nth_error l i = Some o -> o_id o = (k + N.of_nat i)%N).
Proof. exact ids_sequential_iff. Qed.
Print Assumptions numbering_test_is_sequential.

(* the disjoint-union test behind "cpuset = disjoint union of the children's cpusets" and the nodeset clause succeeds
   exactly on pairwise disjoint lists that are disjoint from the accumulator, and then returns the union *)
Theorem disjoint_union_test_is_pairwise_disjointness : forall l acc,
  (exists u, disjoint_union l acc = Some u) <->
  ForallOrdPairs (fun a b => forall i, mem i a = true -> mem i b = true -> False) l /\
  Forall (fun a => forall i, mem i acc = true -> mem i a = true -> False) l.
Proof. exact disjoint_union_iff. Qed.
Print Assumptions disjoint_union_test_is_pairwise_disjointness.

Theorem disjoint_union_test_returns_the_union : forall l acc,
  ForallOrdPairs (fun a b => forall i, mem i a = true -> mem i b = true -> False) l ->
  Forall (fun a => forall i, mem i acc = true -> mem i a = true -> False) l ->
  exists u, disjoint_union l acc = Some u /\ forall i, mem i u = mem i acc || existsb (mem i) l.
Proof. exact disjoint_union_complete. Qed.
Print Assumptions disjoint_union_test_returns_the_union.

Theorem set_equality_test_is_equality : forall a b, opt_bset_eqb a b = true <-> a = b.
Proof. exact opt_bset_eqb_iff. Qed.
Print Assumptions set_equality_test_is_equality.

Theorem inclusion_test_is_inclusion : forall x y,
  subset_opt (Some x) (Some y) = true <-> forall i, mem i x = true -> mem i y = true.
Proof. exact subset_opt_iff. Qed.
Print Assumptions inclusion_test_is_inclusion.

Theorem inclusion_test_accepts_every_inclusion : forall a b,
  (forall i, mem_o i a = true -> mem_o i b = true) -> subset_opt a b = true.
Proof. exact subset_opt_complete. Qed.
Print Assumptions inclusion_test_accepts_every_inclusion.
