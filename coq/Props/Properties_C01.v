(* C01 - property theorems (being extended: see DESIGN.md 6.C01). *)
From Coq Require Import List NArith ZArith Bool.
From HV Require Import Base.BSet Gen.Tables Text.TypeOrder Topo.Dump Topo.WFCheck.
